"""Mechanical extraction of real function bodies / regions from /repo into one Verus file.

A template (`*.vspec.rs`) is a Verus source file with `//@` directives. Every directive block is
replaced by text cut from the repository on this run, with contract text from the template spliced
in at syntactic positions (after the signature, before a loop body, before/after an anchored
statement). The only changes to the repository's tokens are the closed rewrite table `GLOBAL_REWRITES`
below plus `//@ rewrite` rules declared in the template; each application is counted and reported.

Directives (payload = the plain lines that follow, up to the next `//@` line):

  //@ extract fn <file> <selector> [as <newname>]     selector: name | Type::name | Trait for Type::name
  //@ extract block <file> <selector> from "<anchor>" [to "<anchor2>" | to-block-end]
  //@ extract item <file> <kind> <Name>                kind: struct | enum | const | type | static
  //@ ret <name>                 name the return value: `-> T` becomes `-> (name: T)`
  //@ spec                       payload inserted between signature and body
  //@ loop <n>                   payload inserted before the body of the n-th loop (1-based, source order)
  //@ before "<anchor>"          payload inserted before the line containing the anchor
  //@ after "<anchor>"           payload inserted after the statement starting on the anchor's line
  //@ rewrite "<from>" "<to>"    literal replacement inside the extracted text (must hit at least once)
  //@ rewrite-re "<regex>" "<to>" regex (DOTALL) replacement, same rule
  //@ rewrite? / rewrite-re?     same, but may hit zero times (alternative spellings of the same construct)
  //@ wrap                       (block only) payload = wrapper signature + contract, e.g. `fn f(x: u32) -> (r: u32) requires ..`
  //@ prologue / epilogue        (block only) payload placed before / after the region inside the wrapper
  //@ end
"""
import re
import os
from rustlex import (LexError, mask, strip_test_mods, find_fn, find_unique, match_close, statement_end,
                     loops_in, line_start, line_of)


class ExtractError(Exception):
    pass


# Closed table of global rewrites. (name, regex, replacement, reason)
GLOBAL_REWRITES = [
    ("R1a", re.compile(r"unsafe\s*\{\s*([\w\.\s]+?)\s*\.get_unchecked_mut\(((?:[^{}])*?)\)\s*\}", re.S),
     lambda m: "&mut " + re.sub(r"\s+", "", m.group(1)) + "[" + m.group(2).strip() + "]",
     "unsafe { X.get_unchecked_mut(i) } -> &mut X[i]: identical when i < len; Verus must prove i < len, the unsafe block's safety condition"),
    ("R1b", re.compile(r"unsafe\s*\{\s*([\w\.\s]+?)\s*\.get_unchecked\(((?:[^{}])*?)\)\s*\}", re.S),
     lambda m: "&" + re.sub(r"\s+", "", m.group(1)) + "[" + m.group(2).strip() + "]",
     "unsafe { X.get_unchecked(i) } -> &X[i]: as R1a"),
    ("R2a", re.compile(r"\busize::min\("), lambda m: "vmin(",
     "usize::min(a,b) -> vmin(a,b): Ord::min is a provided trait method Verus cannot specify; vmin has a verified body in the preamble"),
    ("R2b", re.compile(r"\busize::max\("), lambda m: "vmax(", "as R2a"),
    ("R3", re.compile(r"Bound::(Included|Excluded)\(&(\w+)\)\s*=>\s*\2\b"),
     lambda m: f"Bound::{m.group(1)}({m.group(2)}) => (*{m.group(2)})",
     "ref pattern `Bound::X(&s) => s..` -> `Bound::X(s) => (*s)..`: Verus has no reference patterns"),
    ("R7", re.compile(r"(?m)^[ \t]*#\[(?:inline|cold|must_use|cfg_attr\(test,[^\]]*\)|cfg_attr\(coverage_nightly[^\]]*\)|inline\(always\)|inline\(never\))\][^\n]*\n"),
     lambda m: "", "attribute lines #[inline]/#[cold]/#[must_use]/#[cfg_attr(test,..)] dropped"),
]


def _split_top_commas(s):
    parts, depth, cur = [], 0, []
    for ch in s:
        if ch in "([{":
            depth += 1
        elif ch in ")]}":
            depth -= 1
        if ch == "," and depth == 0:
            parts.append("".join(cur))
            cur = []
        else:
            cur.append(ch)
    parts.append("".join(cur))
    return parts


def rewrite_assert_macros(text):
    """R8: debug_assert_ne!(a, b, ..) -> debug_assert!(a != b); debug_assert_eq!/assert_eq!/assert_ne! likewise.
    (Verus has no spec for core::panicking::assert_failed; the boolean form panics under exactly the same condition.
    Message arguments are dropped.)"""
    n = 0
    out = []
    i = 0
    rx = re.compile(r"\b(debug_assert|assert)_(ne|eq)!\(")
    while True:
        m = rx.search(text, i)
        if not m:
            out.append(text[i:])
            break
        ob = m.end() - 1
        from rustlex import mask as _mask
        cb = match_close(_mask(text), ob)
        args = _split_top_commas(text[ob + 1:cb])
        if len(args) < 2:
            raise ExtractError("assert macro with <2 args")
        op = "!=" if m.group(2) == "ne" else "=="
        out.append(text[i:m.start()])
        out.append(f"{m.group(1)}!(({args[0].strip()}) {op} ({args[1].strip()}))")
        i = cb + 1
        n += 1
    return "".join(out), n


def parse_template(text):
    """Split template into literal chunks and directive blocks."""
    lines = text.split("\n")
    out = []  # ("lit", text) | ("block", dict)
    i = 0
    lit = []
    while i < len(lines):
        ln = lines[i]
        s = ln.strip()
        if s.startswith("//@ extract "):
            if lit:
                out.append(("lit", "\n".join(lit)))
                lit = []
            blk = {"head": s[len("//@ "):], "sections": [], "line": i + 1}
            i += 1
            cur = None
            while i < len(lines):
                s2 = lines[i].strip()
                if s2.startswith("//@"):
                    d = s2[3:].strip()
                    if d == "end":
                        break
                    cur = {"dir": d, "payload": []}
                    blk["sections"].append(cur)
                else:
                    if cur is None:
                        if s2:
                            raise ExtractError(f"template line {i+1}: payload before any section directive")
                    else:
                        cur["payload"].append(lines[i])
                i += 1
            else:
                raise ExtractError(f"template line {blk['line']}: missing //@ end")
            out.append(("block", blk))
        else:
            lit.append(ln)
        i += 1
    if lit:
        out.append(("lit", "\n".join(lit)))
    return out


def _sel(selector):
    trait = None
    impl = None
    name = selector
    if " for " in selector:
        trait, rest = selector.split(" for ", 1)
        trait = trait.strip()
        selector = rest.strip()
    if "::" in selector:
        impl, name = selector.rsplit("::", 1)
    else:
        name = selector
    return trait, impl, name.strip()


class Extractor:
    def __init__(self, repo_root, twin=False):
        # twin=True: vacuity twin - `assert(false)` is placed at the start of every contracted body; it must FAIL
        # (it is reachable iff the function's `requires` is satisfiable)
        self.twin = twin
        self.twinned = []
        self.repo = repo_root
        self.cache = {}
        self.log = {"items": [], "rewrites": {}, "local_rewrites": []}

    def load(self, rel):
        if rel not in self.cache:
            p = os.path.join(self.repo, rel)
            if not os.path.exists(p):
                raise ExtractError(f"source file {rel} not found")
            src = open(p, encoding="utf-8").read()
            # the staged copy may carry this framework's own Kani overlay modules appended after the repository's
            # text (add-only, marked): extraction sees the repository's text only
            k = src.find("// ===== folo-verif overlay")
            if k >= 0:
                src = src[:k]
            m = mask(src, keep_strings=False)
            m = strip_test_mods(src, m)
            ms = mask(src, keep_strings=True)
            self.cache[rel] = (src, m, ms)
        return self.cache[rel]

    # -- splice helpers -------------------------------------------------
    def apply_sections(self, src, masked, a, b, sections, body_open=None, sig_span=None):
        """Return text of src[a:b] with section payloads spliced. Offsets are absolute into src."""
        inserts = []  # (offset, text, order)
        local_rw = []
        ret_name = None
        order = 0
        for sec in sections:
            d = sec["dir"]
            payload = "\n".join(sec["payload"]).rstrip()
            order += 1
            if d.startswith("ret "):
                ret_name = d.split()[1]
            elif d == "spec":
                if body_open is None:
                    raise ExtractError("spec section needs a function")
                if self.twin:
                    inserts.append((body_open + 1, " proof { assert(false); } ", 10**6))
                inserts.append((body_open, "\n" + payload + "\n", order))
            elif d.startswith("loop "):
                n = int(d.split()[1])
                lo = loops_in(masked, (body_open + 1) if body_open is not None else a, b)
                if n < 1 or n > len(lo):
                    raise ExtractError(f"loop {n}: function has {len(lo)} loops")
                inserts.append((lo[n - 1][1], "\n" + payload + "\n", order))
            elif d.startswith("before ") or d.startswith("after "):
                kind, rest = d.split(" ", 1)
                m = re.match(r'"((?:[^"\\]|\\.)*)"\s*$', rest.strip())
                if not m:
                    raise ExtractError(f"bad anchor directive: {d}")
                anchor = m.group(1).replace('\\"', '"')
                try:
                    pos = find_unique(self._code_view(src, masked), anchor, (body_open + 1) if body_open is not None else a, b)
                except LexError as e:
                    raise ExtractError(str(e))
                ls = line_start(src, pos)
                if kind == "before":
                    inserts.append((ls, payload + "\n", order))
                else:
                    first = ls + (len(src[ls:]) - len(src[ls:].lstrip(" \t")))
                    e = statement_end(masked, first)
                    inserts.append((e, "\n" + payload + "\n", order))
            elif d.startswith("rewrite ") or d.startswith("rewrite? "):
                m = re.match(r'rewrite\??\s+"((?:[^"\\]|\\.)*)"\s+"((?:[^"\\]|\\.)*)"\s*$', d)
                if not m:
                    raise ExtractError(f"bad rewrite directive: {d}")
                local_rw.append((m.group(1).replace('\\"', '"'), m.group(2).replace('\\"', '"'), d.startswith("rewrite?")))
            elif d.startswith("rewrite-re ") or d.startswith("rewrite-re? "):
                m = re.match(r'rewrite-re\??\s+"((?:[^"\\]|\\.)*)"\s+"((?:[^"\\]|\\.)*)"\s*$', d)
                if not m:
                    raise ExtractError(f"bad rewrite-re directive: {d}")
                local_rw.append((re.compile(m.group(1).replace('\\"', '"'), re.S), m.group(2).replace('\\"', '"'), d.startswith("rewrite-re?")))
            elif d in ("wrap", "prologue", "epilogue"):
                pass
            else:
                raise ExtractError(f"unknown directive: {d}")
        # name return value
        pieces = []
        if ret_name is not None:
            if sig_span is None:
                raise ExtractError("ret needs a function")
            s0, s1 = sig_span
            sig_m = masked[s0:s1]
            k = sig_m.rfind("->")
            if k < 0:
                raise ExtractError("ret: signature has no return type")
            # return type runs from after -> to `where` or end
            rt_a = s0 + k + 2
            wm = re.search(r"\bwhere\b", masked[rt_a:s1])
            rt_b = rt_a + wm.start() if wm else s1
            rtype = src[rt_a:rt_b].strip()
            inserts.append((rt_a, " (" + ret_name + ": ", -2))
            inserts.append((rt_a + len(src[rt_a:rt_b].rstrip()), ")", -1))
        inserts.sort(key=lambda t: (t[0], t[2]))
        cur = a
        for off, txt, _ in inserts:
            if off < a or off > b:
                raise ExtractError("insert outside region")
            pieces.append(src[cur:off])
            pieces.append(txt)
            cur = off
        pieces.append(src[cur:b])
        text = "".join(pieces)
        return text, local_rw

    def _code_view(self, src, masked):
        # code with comments blanked but string contents kept: recompute lazily
        key = id(src)
        if not hasattr(self, "_cv"):
            self._cv = {}
        if key not in self._cv:
            cv = mask(src, keep_strings=True)
            # blank whatever the (test-mod-stripped) masked text blanks entirely at line granularity
            self._cv[key] = cv
        return self._cv[key]

    def rewrite(self, text, local_rw, where, global_rw=True):
        for name, rx, repl, why in (GLOBAL_REWRITES if global_rw else []):
            text, n = rx.subn(repl, text)
            if n:
                self.log["rewrites"].setdefault(name, {"hits": 0, "why": why})["hits"] += n
        text, n8 = rewrite_assert_macros(text) if global_rw else (text, 0)
        if n8:
            self.log["rewrites"].setdefault("R8", {"hits": 0, "why": rewrite_assert_macros.__doc__.strip()})["hits"] += n8
        for frm, to, optional in local_rw:
            if isinstance(frm, str):
                n = text.count(frm)
                text = text.replace(frm, to)
                frm_s = frm
            else:
                text, n = frm.subn(to, text)
                frm_s = "re:" + frm.pattern
            if n == 0 and not optional:
                raise ExtractError(f"{where}: rewrite {frm_s!r} matched nothing")
            self.log["local_rewrites"].append({"where": where, "from": frm_s, "to": to, "hits": n})
        if "get_unchecked" in text:
            raise ExtractError(f"{where}: get_unchecked survived the rewrite table")
        return text

    # -- block kinds ---------------------------------------------------
    def do_fn(self, head, sections):
        m = re.match(r"extract fn (\S+) (.+?)(?: as (\w+))?$", head)
        if not m:
            raise ExtractError(f"bad directive: {head}")
        rel, selector, newname = m.group(1), m.group(2).strip(), m.group(3)
        src, masked, _ = self.load(rel)
        trait, impl, name = _sel(selector)
        try:
            f = find_fn(src, masked, name, impl_of=impl, trait_of=trait)
        except LexError as e:
            raise ExtractError(f"{rel}: {e}")
        a, ob, cb = f["start"], f["open"], f["close"]
        text, local_rw = self.apply_sections(src, masked, a, cb + 1, sections, body_open=ob, sig_span=(f["fn_kw"], ob))
        if newname:
            text = re.sub(r"\bfn\s+" + re.escape(name) + r"\b", "fn " + newname, text, count=1)
        text = self.rewrite(text, local_rw, f"{rel}::{selector}")
        self.log["items"].append({"kind": "fn", "file": rel, "selector": selector, "lines": [line_of(src, a), line_of(src, cb)],
                                  "as": newname or name})
        return text

    def do_block(self, head, sections):
        to_block_end = False
        if head.endswith(" to-block-end"):
            to_block_end = True
            head = head[:-len(" to-block-end")]
        m = re.match(r'extract block (\S+) (\S+(?: for \S+)?) from "((?:[^"\\]|\\.)*)"(?: to "((?:[^"\\]|\\.)*)")?$', head)
        if not m:
            raise ExtractError(f"bad directive: {head}")
        rel, selector, a1, a2 = m.group(1), m.group(2), m.group(3), m.group(4)
        a1 = a1.replace('\\"', '"')
        a2 = a2.replace('\\"', '"') if a2 else None
        src, masked, _ = self.load(rel)
        trait, impl, name = _sel(selector)
        try:
            f = find_fn(src, masked, name, impl_of=impl, trait_of=trait)
            cv = self._code_view(src, masked)
            p1 = find_unique(cv, a1, f["open"], f["close"])
            ls1 = line_start(src, p1)
            p2 = find_unique(cv, a2, p1, f["close"]) if a2 else p1
            ls2 = line_start(src, p2)
            first2 = ls2 + (len(src[ls2:]) - len(src[ls2:].lstrip(" \t")))
            e = statement_end(masked, first2)
            if to_block_end:
                # region runs to the end of the innermost block enclosing the first anchor (tail expression included)
                depth = 0
                k = p1
                while k > f["open"]:
                    k -= 1
                    if masked[k] == "}":
                        depth += 1
                    elif masked[k] == "{":
                        if depth == 0:
                            break
                        depth -= 1
                e = match_close(masked, k)
                # strip trailing whitespace before the closing brace
                while e > ls1 and src[e - 1] in " \t\n":
                    e -= 1
        except LexError as ex:
            raise ExtractError(f"{rel}::{selector}: {ex}")
        text, local_rw = self.apply_sections(src, masked, ls1, e, sections)
        wrap = pro = epi = ""
        for sec in sections:
            if sec["dir"] == "wrap":
                wrap = "\n".join(sec["payload"]).rstrip()
            elif sec["dir"] == "prologue":
                pro = "\n".join(sec["payload"]).rstrip() + "\n"
            elif sec["dir"] == "epilogue":
                epi = "\n" + "\n".join(sec["payload"]).rstrip()
        if not wrap:
            raise ExtractError(f"{head}: block needs a //@ wrap section")
        if self.twin:
            pro = "proof { assert(false); }\n" + pro
        text = self.rewrite(text, local_rw, f"{rel}::{selector}@{a1!r}")
        self.log["items"].append({"kind": "block", "file": rel, "selector": selector, "anchor": a1,
                                  "lines": [line_of(src, ls1), line_of(src, e)]})
        return wrap + "\n{\n" + pro + text + epi + "\n}\n"

    def do_item(self, head, sections):
        m = re.match(r"extract item (\S+) (struct|enum|const|type|static) (\w+)$", head)
        if not m:
            raise ExtractError(f"bad directive: {head}")
        rel, kind, name = m.groups()
        src, masked, _ = self.load(rel)
        hits = [h for h in re.finditer(r"(?m)^[ \t]*(pub(\([^)]*\))?\s+)?" + kind + r"\s+" + name + r"\b", masked)]
        if len(hits) != 1:
            raise ExtractError(f"{rel}: {kind} {name}: {len(hits)} matches")
        a = hits[0].start()
        # end: `;` at depth 0 or matching brace
        i = hits[0].end()
        while True:
            c = masked[i]
            if c in "([":
                i = match_close(masked, i)
            elif c == "{":
                i = match_close(masked, i)
                break
            elif c == ";":
                break
            i += 1
        # for `const X: T = {..};` include trailing semicolon
        e = i + 1
        if kind in ("const", "static", "type") and masked[i] == "}":
            mm = re.match(r"\s*;", masked[e:e + 10])
            if mm:
                e += mm.end()
        text, local_rw = self.apply_sections(src, masked, a, e, sections)
        text = self.rewrite(text, local_rw, f"{rel}::{kind} {name}")
        self.log["items"].append({"kind": kind, "file": rel, "selector": name, "lines": [line_of(src, a), line_of(src, e)]})
        return text

    def do_file(self, head, sections):
        """Whole source file minus its #[cfg(test)] modules, its `use crate::..;` / `use super::..;` imports and its
        inner attributes (the template supplies the surroundings). Everything else is the repository's text."""
        m = re.match(r"extract file (\S+)$", head)
        if not m:
            raise ExtractError(f"bad directive: {head}")
        rel = m.group(1)
        src, masked, _ = self.load(rel)
        # spans to drop (found on the masked text so comments / strings cannot confuse it)
        drops = []
        # test modules were blanked in `masked` by load(); find the blanked spans by comparing against a fresh mask
        fresh = mask(src, keep_strings=False)
        i = 0
        n = len(src)
        while i < n:
            if fresh[i] != masked[i]:
                j = i
                while j < n and (fresh[j] != masked[j] or masked[j] in " \n\t"):
                    j += 1
                drops.append((i, j, "test module"))
                i = j
            else:
                i += 1
        for mm in re.finditer(r"(?m)^[ \t]*(pub(\([^)]*\))?\s+)?use\s+(crate|super)\b[^;]*;", masked):
            drops.append((mm.start(), mm.end(), "crate import"))
        for mm in re.finditer(r"(?m)^[ \t]*#!\[", masked):
            e = match_close(masked, mm.end() - 1)
            drops.append((mm.start(), e + 1, "inner attribute"))
        drops.sort()
        text, local_rw = self.apply_sections(src, masked, 0, len(src), sections)
        # apply_sections returns the spliced text of src[0:len]; drops are applied on the unspliced text only
        if text != src:
            raise ExtractError(f"{rel}: `extract file` supports rewrite sections only")
        out = []
        pos = 0
        for a, b, _why in drops:
            if a < pos:
                continue
            out.append(src[pos:a])
            pos = b
        out.append(src[pos:])
        text = "".join(out)
        text = self.rewrite(text, local_rw, f"{rel}::<file>", global_rw=False)
        self.log["items"].append({"kind": "file", "file": rel, "selector": "<whole file>", "lines": [1, src.count("\n") + 1],
                                  "dropped": [f"{why} (lines {line_of(src, a)}-{line_of(src, b)})" for a, b, why in drops]})
        return text

    def assemble(self, template_text):
        parts = parse_template(template_text)
        out = []
        line_map = []  # (first_line, last_line, item index)
        cur_line = 1
        for kind, val in parts:
            if kind == "lit":
                txt = val
            else:
                head = val["head"]
                before = len(self.log["items"])
                if head.startswith("extract fn "):
                    txt = self.do_fn(head, val["sections"])
                elif head.startswith("extract block "):
                    txt = self.do_block(head, val["sections"])
                elif head.startswith("extract item "):
                    txt = self.do_item(head, val["sections"])
                elif head.startswith("extract file "):
                    txt = self.do_file(head, val["sections"])
                else:
                    raise ExtractError(f"unknown extract kind: {head}")
                n = txt.count("\n") + 1
                self.log["items"][before]["out_lines"] = [cur_line, cur_line + n - 1]
            out.append(txt)
            cur_line += txt.count("\n") + 1
        return "\n".join(out)


def twin_payload(payload):
    """Replace the `ensures` clause list (an `ensures` keyword at the start of a line up to a following
    line-initial `decreases`, or the end) by `ensures false,`."""
    lines = payload.split("\n")
    out = []
    skipping = False
    found = False
    for ln in lines:
        st = ln.strip()
        if re.match(r"ensures\b", st):
            out.append("    ensures false,")
            skipping = True
            found = True
            continue
        if skipping and re.match(r"(decreases|requires)\b", st):
            skipping = False
        if not skipping:
            out.append(ln)
    if not found:
        out.append("    ensures false,")
    return "\n".join(out)


def scan_assumptions(text):
    """Mechanical scan of an assembled file for trust-introducing constructs."""
    m = mask(text, keep_strings=False)
    found = []
    for pat, label in [(r"\bassume\s*\(", "assume("), (r"\badmit\s*\(", "admit("), (r"external_body", "external_body"),
                       (r"assume_specification", "assume_specification"), (r"#\[verifier::external", "verifier::external"),
                       (r"\bexternal_type_specification\b", "external_type_specification"),
                       (r"#\[verifier::truncate\]", "verifier::truncate")]:
        for h in re.finditer(pat, m):
            ln = text.count("\n", 0, h.start()) + 1
            line = text.split("\n")[ln - 1].strip()
            found.append(f"{label} @ line {ln}: {line[:140]}")
    return found


if __name__ == "__main__":
    import sys, json
    ex = Extractor(sys.argv[1])
    txt = ex.assemble(open(sys.argv[2]).read())
    open(sys.argv[3], "w").write(txt)
    print(json.dumps(ex.log, indent=1))
