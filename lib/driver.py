"""Driver: check <property> [--tier quick|thorough]

Stages /repo's working tree, overlays Kani harness modules / extracts Verus units, runs the verifiers,
maps every obligation to the property it serves, writes evidence and prints VIOLATION / KNOWN-FINDING lines.

Exit codes: 0 = every obligation discharged (or only listed known findings failed)
            1 = a contract obligation fails on /repo's current source (VIOLATION line printed)
            2 = undecided (tool limit, timeout, lost anchor, build error, vacuity guard) - never an alarm
"""
import sys
import os
import re
import json
import time
import shutil
import subprocess
import tempfile
import tomllib
import signal
import concurrent.futures as cf

HERE = os.path.dirname(os.path.abspath(__file__))
ROOT = os.path.dirname(HERE)
sys.path.insert(0, HERE)
from extract import Extractor, ExtractError, scan_assumptions  # noqa: E402
import rustlex  # noqa: E402

REPO = os.environ.get("VERIF_REPO", "/repo")
UNITS = os.path.join(ROOT, "units")
EVID = os.environ.get("VERIF_EVIDENCE_DIR") or os.path.join(ROOT, "evidence")
REPLAY = os.path.join(ROOT, "replay")
KNOWN = os.path.join(ROOT, "known_findings.txt")
MEM_KB = int(os.environ.get("VERIF_MEM_KB", str(20 * 1024 * 1024)))  # per-process address space cap


class Undecided(Exception):
    pass


def log(*a):
    print(*a, file=sys.stderr, flush=True)


# ----------------------------------------------------------------------------------------------
# units
# ----------------------------------------------------------------------------------------------
def load_units():
    units = []
    for d in sorted(os.listdir(UNITS)):
        p = os.path.join(UNITS, d, "unit.toml")
        if os.path.exists(p):
            with open(p, "rb") as f:
                u = tomllib.load(f)
            u["name"] = d
            u["dir"] = os.path.join(UNITS, d)
            units.append(u)
    return units


def tier_ok(ob_tier, tier):
    return ob_tier == "quick" or tier == "thorough"


# ----------------------------------------------------------------------------------------------
# staging
# ----------------------------------------------------------------------------------------------
def stage(scratch):
    dst = os.path.join(scratch, "stage")
    os.makedirs(dst, exist_ok=True)
    r = subprocess.run(["rsync", "-a", "--delete", "--exclude", "/target", "--exclude", "/.git", REPO + "/", dst + "/"],
                       capture_output=True, text=True)
    if r.returncode != 0:
        raise Undecided("staging failed: " + r.stderr[-400:])
    return dst


def run(cmd, cwd=None, timeout=None, env=None, mem_kb=None):
    """Run a command in its own process group with timeout and address-space cap. Returns (rc, out, err, secs, timed_out)."""
    e = dict(os.environ)
    e.update({"CARGO_NET_OFFLINE": "true", "CARGO_TERM_COLOR": "never"})
    if env:
        e.update(env)
    t0 = time.time()

    def pre():
        os.setsid()
        if mem_kb:
            import resource
            resource.setrlimit(resource.RLIMIT_AS, (mem_kb * 1024, mem_kb * 1024))

    p = subprocess.Popen(cmd, cwd=cwd, env=e, stdout=subprocess.PIPE, stderr=subprocess.PIPE, text=True, preexec_fn=pre)
    try:
        out, err = p.communicate(timeout=timeout)
        to = False
    except subprocess.TimeoutExpired:
        try:
            os.killpg(p.pid, signal.SIGKILL)
        except ProcessLookupError:
            pass
        out, err = p.communicate()
        to = True
    return p.returncode, out, err, time.time() - t0, to


# ----------------------------------------------------------------------------------------------
# Verus
# ----------------------------------------------------------------------------------------------
def run_verus_spec(unit, spec, stage_dir, scratch, tier):
    """Returns list of obligation dicts."""
    name = spec["name"]
    tpl = os.path.join(unit["dir"], spec["template"])
    ex = Extractor(stage_dir)
    try:
        text = ex.assemble(open(tpl).read())
    except (ExtractError, rustlex.LexError) as e:
        raise Undecided(f"verus unit {unit['name']}/{name}: extraction failed: {e}")
    wd = os.path.join(scratch, "verus", unit["name"])
    os.makedirs(wd, exist_ok=True)
    f = os.path.join(wd, name + ".rs")
    open(f, "w").write(text)
    cmd = ["verus", f, "--edition", "2024", "--output-json", "--time", "--multiple-errors", "20", "--triggers-mode", "silent"]
    rl = spec.get("rlimit")
    if rl:
        cmd += ["--rlimit", str(rl)]
    rc, out, err, secs, to = run(cmd, cwd=wd, timeout=spec.get("timeout", 600))
    if to:
        raise Undecided(f"verus {name}: timeout")
    try:
        js = json.loads(out[out.index("{"):])
    except Exception:
        raise Undecided(f"verus {name}: no JSON output (rc={rc}): {err[-1500:]}")
    vr = js.get("verification-results", {})
    if vr.get("encountered-vir-error") or ("verified" not in vr):
        raise Undecided(f"verus {name}: front-end error (unsupported construct / type error):\n{err[-3000:]}")
    fb = []
    for m in js["times-ms"]["smt"]["smt-run-module-times"]:
        fb += m["function-breakdown"]
    if not fb:
        raise Undecided(f"verus {name}: zero obligations generated")
    # map error messages to functions by line
    errors = parse_verus_errors(err, f)
    items = ex.log["items"]
    # function name -> tag (serves) from spec["functions"] table
    ftab = spec.get("functions", {})
    default_serves = spec.get("serves", unit.get("property", []))
    crate = name
    obligations = []
    rlimit_fail = "Resource limit (rlimit) exceeded" in err
    for fe in fb:
        fn = fe["function"]
        short = fn.split("::", 1)[1] if "::" in fn else fn
        meta = ftab.get(short, {})
        serves = meta.get("serves", default_serves)
        msgs = [e for e in errors if e["function"] == short or e["function"] is None and not fe["success"]]
        ob = {
            "id": f"verus:{unit['name']}/{name}:{short}",
            "engine": "Verus+Z3",
            "unit": unit["name"],
            "serves": serves,
            "ok": bool(fe["success"]),
            "time_s": fe["time-micros"] / 1e6,
            "kind": meta.get("kind", "proof"),
            "bound": meta.get("bound", ""),
            "what": meta.get("what", ""),
            "messages": [m["text"] for m in errors if m["function"] == short][:6],
            "undecided": False,
        }
        if not fe["success"] and not ob["messages"]:
            ob["messages"] = ["(no message attributed)"]
        if not fe["success"] and any("rlimit" in m.lower() or "timed out" in m.lower() for m in ob["messages"]):
            ob["undecided"] = True
        obligations.append(ob)
    expected = spec.get("expect_functions")
    if expected is not None and len(fb) != expected:
        raise Undecided(f"verus {name}: {len(fb)} obligations generated, unit declares {expected} (template and unit.toml out of sync)")
    # attribute errors with function names by line ranges: done in parse via file scan
    info = {
        "file": f,
        "items": items,
        "rewrites": ex.log["rewrites"],
        "local_rewrites": ex.log["local_rewrites"],
        "assumptions_scan": scan_assumptions(text),
        "wall_s": secs,
        "smt_s": js["times-ms"]["smt"]["smt-run"] / 1000.0 if isinstance(js["times-ms"]["smt"].get("smt-run"), (int, float)) else None,
        "verified": vr.get("verified"), "errors": vr.get("errors"),
        "stderr_tail": err[-6000:] if vr.get("errors") else "",
        "cmd": " ".join(cmd),
    }
    # vacuity twin
    if spec.get("vacuity", True):
        info["vacuity"] = verus_vacuity(open(tpl).read(), stage_dir, wd, name, None)
        info["vacuity_allow"] = spec.get("vacuity_allow", [])
    return obligations, info


def enclosing_fn(text_lines, line_no):
    """Name (possibly Type::name) of the fn enclosing 1-based line_no in an assembled Verus file."""
    fn = None
    impl = None
    depth_at = []
    for i in range(line_no, 0, -1):
        ln = text_lines[i - 1]
        m = re.match(r"\s*(?:pub(?:\([^)]*\))?\s+)?(?:const\s+)?(?:unsafe\s+)?(?:proof\s+|exec\s+)?fn\s+(\w+)", ln)
        if m and fn is None:
            fn = m.group(1)
            indent = len(ln) - len(ln.lstrip())
            if indent == 0:
                return fn
            # search for enclosing impl
            for j in range(i, 0, -1):
                m2 = re.match(r"impl(?:<[^>]*>)?\s+(?:(\w+)(?:<[^>]*>)?\s+for\s+)?(\w+)", text_lines[j - 1])
                if m2:
                    return f"{m2.group(2)}::{fn}"
            return fn
    return fn


def parse_verus_errors(err, path):
    res = []
    try:
        lines = open(path).read().split("\n")
    except OSError:
        lines = []
    blocks = re.split(r"\n(?=error)", err)
    for b in blocks:
        if not b.startswith("error"):
            continue
        if b.startswith("error: aborting"):
            continue
        m = re.search(r"-->\s+\S+?:(\d+):(\d+)", b)
        fn = None
        if m and lines:
            # for "precondition not satisfied" the first --> is the callee's requires; the call site comes later
            locs = [int(x) for x in re.findall(r"(?m)^\s*(\d+)\s*\|", b)]
            first = b.split("\n", 1)[0]
            if "precondition not satisfied" in first and locs:
                # call site is the last annotated location
                fn = enclosing_fn(lines, max(locs))
            else:
                fn = enclosing_fn(lines, int(m.group(1)))
        res.append({"function": fn, "text": re.sub(r"\n\s*\n", "\n", b.strip())[:1200]})
    return res


def verus_vacuity(tpl_text, stage_dir, wd, name, expect_fail):
    """Twin file: `proof { assert(false); }` at the start of every contracted body; every such fn must then FAIL.
    A fn that still verifies has an unsatisfiable precondition (its contract would be vacuous)."""
    ex = Extractor(stage_dir, twin=True)
    twin = ex.assemble(tpl_text)
    f = os.path.join(wd, name + "_vacuity.rs")
    open(f, "w").write(twin)
    rc, out_, err, secs, to = run(["verus", f, "--edition", "2024", "--output-json", "--multiple-errors", "200", "--triggers-mode", "silent", "--time"],
                                  cwd=wd, timeout=600)
    try:
        js = json.loads(out_[out_.index("{"):])
        fb2 = []
        for mo in js["times-ms"]["smt"]["smt-run-module-times"]:
            fb2 += mo["function-breakdown"]
    except Exception:
        return {"ran": False, "reason": "twin did not produce JSON: " + err[-300:]}
    names = set()
    for it in ex.log["items"]:
        if it["kind"] == "fn":
            names.add(it["as"])
    still_ok = [x["function"] for x in fb2 if x["success"] and x["function"].split("::")[-1] in names]
    return {"ran": True, "twinned_functions": len(names), "functions_that_verify_false": still_ok, "wall_s": round(secs, 1)}


# ----------------------------------------------------------------------------------------------
# Kani
# ----------------------------------------------------------------------------------------------
def harness_paths(units):
    """harness name -> fully qualified module path, derived from the overlay target file that defines it."""
    res = {}
    for u in units:
        for ov in u.get("overlay", []):
            txt = open(os.path.join(u["dir"], ov["append"])).read()
            rel = ov["target"]
            m = re.match(r"packages/[^/]+/src/(.*)\.rs$", rel)
            if not m:
                continue
            parts = [p for p in m.group(1).split("/") if p not in ("lib", "mod", "main")]
            modname = re.search(r"mod\s+(verif_kani\w*)", txt)
            prefix = "::".join(parts + [modname.group(1) if modname else "verif_kani"])
            for hm in re.finditer(r"(?:fn\s+(\w+)\s*\(|inst!\(\s*(\w+)\s*,)", txt):
                nm = hm.group(1) or hm.group(2)
                res.setdefault((u["name"], nm), prefix + "::" + nm)
    return res


def overlay(stage_dir, units):
    """Append every unit's harness modules to the staged files (add-only). Returns {relpath: [append files]}"""
    done = {}
    for u in units:
        for ov in u.get("overlay", []):
            rel = ov["target"]
            src = os.path.join(stage_dir, rel)
            if not os.path.exists(src):
                raise Undecided(f"overlay target {rel} not found in /repo")
            add = open(os.path.join(u["dir"], ov["append"])).read()
            orig = open(os.path.join(REPO, rel)).read()
            cur = open(src).read()
            if not cur.startswith(orig):
                raise Undecided(f"overlay: staged {rel} does not start with the original bytes")
            open(src, "w").write(cur + "\n" + add)
            done.setdefault(rel, []).append(os.path.join(u["name"], ov["append"]))
        for ex in u.get("extra_file", []):
            # new files (never replace existing ones)
            dst = os.path.join(stage_dir, ex["dest"])
            if os.path.exists(dst):
                raise Undecided(f"extra_file would overwrite {ex['dest']}")
            shutil.copy(os.path.join(u["dir"], ex["src"]), dst)
    return done


KANI_RESULT_RX = re.compile(r"Checking harness (\S+?)\.\.\.")


def parse_kani_output(out):
    """Split combined cargo-kani stdout into per-harness blocks."""
    res = {}
    parts = re.split(r"(?m)^(?:Thread \d+: )?Checking harness (\S+?)\.\.\.\s*$", out)
    # parts: [pre, name1, block1, name2, block2...]
    for k in range(1, len(parts), 2):
        full = parts[k]
        block = parts[k + 1]
        short = full.split("::")[-1]
        status = None
        m = re.search(r"VERIFICATION:- (SUCCESSFUL|FAILED)", block)
        if m:
            status = m.group(1)
        failed = re.findall(r"(?m)^Failed Checks: (.*)$", block)
        covers = re.search(r"\*\* (\d+) of (\d+) cover properties satisfied", block)
        nchecks = re.search(r"\*\* (\d+) of (\d+) failed", block)
        t = re.search(r"Verification Time: ([\d.]+)s", block)
        res[short] = {
            "full": full, "status": status, "failed_checks": failed,
            "covers": (int(covers.group(1)), int(covers.group(2))) if covers else None,
            "checks": (int(nchecks.group(1)), int(nchecks.group(2))) if nchecks else None,
            "time_s": float(t.group(1)) if t else None,
            "unwind_fail": any("unwinding assertion" in f for f in failed),
            "block_tail": block[-2500:],
            "timeout": "CBMC timed out" in block or "timed out" in block.lower(),
            "oom": "out of memory" in block.lower() or "std::bad_alloc" in block,
        }
    return res


def run_kani_group(pkg, harnesses, flags, stage_dir, scratch, jobs, timeout_each):
    """One cargo-kani invocation for one package. harnesses: list of obligation dicts (with 'harness')."""
    tdir = os.path.join(scratch, "target-" + pkg)
    cmd = ["cargo", "kani", "-p", pkg, "--target-dir", tdir, "--output-format", "terse", "-j", str(jobs),
           "--harness-timeout", f"{timeout_each}s", "-Z", "unstable-options"]
    zs = set()
    for fl in flags:
        zs.add(fl)
    for z in sorted(zs):
        cmd += ["-Z", z]
    for h in harnesses:
        cmd += ["--harness", h["harness"]]
    cmd += ["--exact"] if False else []
    total_to = 300 + timeout_each * (1 + len(harnesses) // max(1, jobs))
    rc, out, err, secs, to = run(cmd, cwd=stage_dir, timeout=total_to, mem_kb=None,
                                 env={"RUSTFLAGS": os.environ.get("RUSTFLAGS", "")})
    return {"rc": rc, "out": out, "err": err, "secs": secs, "timed_out": to, "cmd": " ".join(cmd)}


# ----------------------------------------------------------------------------------------------
# known findings
# ----------------------------------------------------------------------------------------------
def load_known():
    findings, fixed = [], []
    if os.path.exists(KNOWN):
        for ln in open(KNOWN):
            ln = ln.strip()
            if ln.startswith("finding:"):
                m = re.match(r"finding:\s*property=(\S+)\s+obligation=(\S+)\s+(.*)$", ln)
                if m:
                    findings.append({"property": m.group(1), "obligation": m.group(2), "what": m.group(3)})
            elif ln.startswith("fixed:"):
                fixed.append(ln)
    return findings, fixed


# ----------------------------------------------------------------------------------------------
# Kani per-harness result files (--output-into-files)
# ----------------------------------------------------------------------------------------------
def parse_kani_result_file(path):
    txt = open(path, errors="replace").read()
    checks = []
    for m in re.finditer(r"Check (\d+): (.+)\n\s*- Status: (\w+)\n\s*- Description: \"(.*)\"\n\s*- Location: (.*)\n", txt):
        checks.append({"name": m.group(2), "status": m.group(3), "desc": m.group(4).strip('"'), "loc": m.group(5).strip()})
    status = None
    m = re.search(r"VERIFICATION:- (SUCCESSFUL|FAILED)", txt)
    if m:
        status = m.group(1)
    covers = re.search(r"\*\* (\d+) of (\d+) cover properties satisfied", txt)
    t = re.search(r"Verification Time: ([\d.]+)s", txt)
    failed = [c for c in checks if c["status"] == "FAILURE"]
    undet = [c for c in checks if c["status"] in ("UNDETERMINED",)]
    unsat_cov = [c for c in checks if c["status"] in ("UNSATISFIABLE", "UNREACHABLE") and ".cover." in c["name"]]
    return {
        "status": status,
        "n_checks": len([c for c in checks if ".cover." not in c["name"]]),
        "failed": failed,
        "undetermined": undet,
        "covers": (int(covers.group(1)), int(covers.group(2))) if covers else (0, 0),
        "unsat_covers": unsat_cov,
        "time_s": float(t.group(1)) if t else None,
        "tail": txt[-1500:],
        "should_panic_note": "should_panic" in txt,
    }



# ----------------------------------------------------------------------------------------------
# A budget of concurrently running CBMC processes shared by every Kani job of one check: several multi-GB CBMCs
# started at once by independent jobs exhausted the machine's memory in the thorough tier (each passes alone).
# ----------------------------------------------------------------------------------------------
import threading
_SLOT_COND = threading.Condition()
_SLOTS_FREE = [None]


def _slot_budget(tier):
    return int(os.environ.get("VERIF_CBMC_BUDGET", "18" if tier == "quick" else "10"))


class cbmc_slots:
    def __init__(self, n, tier):
        self.n = max(1, min(n, _slot_budget(tier)))
        self.tier = tier

    def __enter__(self):
        with _SLOT_COND:
            if _SLOTS_FREE[0] is None:
                _SLOTS_FREE[0] = _slot_budget(self.tier)
            while _SLOTS_FREE[0] < self.n:
                _SLOT_COND.wait()
            _SLOTS_FREE[0] -= self.n
        return self.n

    def __exit__(self, *a):
        with _SLOT_COND:
            _SLOTS_FREE[0] += self.n
            _SLOT_COND.notify_all()
        return False


def kani_group(pkg, obs, flags, stage_dir, scratch, tier):
    """Run all harnesses (obligation dicts with 'harness') of one package; fill in results."""
    jobs = min(len(obs), int(os.environ.get("VERIF_KANI_JOBS", "12")), _slot_budget(tier))
    timeout_each = max(o.get("timeout", 1500 if tier == "quick" else 7200) for o in obs)
    tdir = os.path.join(scratch, "target-" + pkg)
    cmd = ["cargo", "kani", "-p", pkg, "--target-dir", tdir, "--output-format", "terse", "-j", str(jobs),
           "--harness-timeout", f"{timeout_each}s", "--output-into-files", "-Z", "unstable-options"]
    for z in sorted(set(flags)):
        cmd += ["-Z", z]
    for o in obs:
        cmd += ["--harness", o.get("harness_path", o["harness"])]
    if all("harness_path" in o for o in obs):
        cmd += ["--exact"]
    total_to = 600 + timeout_each * (1 + (len(obs) + jobs - 1) // jobs)
    log(f"[kani] {pkg}: {len(obs)} harnesses, -j {jobs}")
    # address-space cap per process (inherited by every cbmc): one exploding harness must not take the machine down
    with cbmc_slots(jobs, tier):
        rc, out, err, secs, to = run(cmd, cwd=stage_dir, timeout=total_to, mem_kb=int(os.environ.get("VERIF_KANI_MEM_KB", str(40 * 1024 * 1024))))
    rdir = os.path.join(tdir, "result_output_dir")
    build_failed = ("error: could not compile" in err) or ("error[E" in err and "Checking harness" not in out)
    if build_failed:
        msgs = []
        for blk in re.split(r"\n(?=error)", out + "\n" + err):
            if blk.startswith("error"):
                msgs.append(blk[:700])
        raise Undecided(f"kani build of {pkg} failed:\n" + "\n".join(msgs[:12]))
    files = {}
    if os.path.isdir(rdir):
        for fn in os.listdir(rdir):
            files[fn.split("::")[-1]] = os.path.join(rdir, fn)
    for o in obs:
        h = o["harness"]
        o["engine"] = "Kani 0.68 / CBMC 6.11 (CaDiCaL)"
        if h not in files:
            o.update({"ok": False, "undecided": True, "messages": [f"no result file for harness {h} (group timed out={to}, rc={rc})"]})
            continue
        r = parse_kani_result_file(files[h])
        o["time_s"] = r["time_s"]
        o["n_checks"] = r["n_checks"]
        o["covers"] = list(r["covers"])
        unsupported = [c for c in r["failed"] if "is not currently supported by Kani" in c["desc"] or "unsupported_construct" in c["name"]]
        real_fail = [c for c in r["failed"] if "unwinding assertion" not in c["desc"] and c not in unsupported]
        if unsupported and not real_fail:
            # a construct Kani cannot model was reached: a tool limit, not a verdict about the code
            o.update({"ok": False, "undecided": True, "messages": ["unsupported construct reached: " + unsupported[0]["desc"][:200]]})
            continue
        exp = o.get("expect_fail")
        no_verdict = r["status"] != "SUCCESSFUL" and not r["failed"] and ("CBMC timed out" in r["tail"] or "CBMC failed" in r["tail"] or "out of memory" in r["tail"].lower())
        if exp and not no_verdict:
            # harness is expected to fail exactly the listed checks (a panic the property demands)
            missing = [e for e in exp if not any(e in c["desc"] for c in real_fail)]
            real_fail = [c for c in real_fail if not any(e in c["desc"] for e in exp)]
            if r["status"] == "FAILED" and not real_fail and not missing and not [c for c in r["failed"] if "unwinding assertion" in c["desc"]]:
                r["status"] = "SUCCESSFUL"
            elif r["status"] == "SUCCESSFUL" or missing:
                real_fail.append({"desc": f"expected failure(s) {missing or exp} did not occur (the demanded panic is missing)", "name": "", "loc": ""})
                r["status"] = "FAILED"
        unwind_fail = [c for c in r["failed"] if "unwinding assertion" in c["desc"]]
        if r["status"] == "SUCCESSFUL":
            o["ok"] = True
            o["undecided"] = False
            exp_cov = o.get("covers_expected")
            if exp_cov is not None and r["covers"][0] != exp_cov:
                o["ok"] = False
                o["undecided"] = True
                o["messages"] = [f"vacuity guard: {r['covers'][0]} of {r['covers'][1]} cover properties satisfied, expected {exp_cov}"]
            elif r["covers"][0] != r["covers"][1]:
                o["ok"] = False
                o["undecided"] = True
                o["messages"] = [f"vacuity guard: unsatisfied cover: " + "; ".join(c["desc"] for c in r["unsat_covers"])]
            if r["n_checks"] == 0:
                o["ok"] = False
                o["undecided"] = True
                o["messages"] = ["zero checks generated"]
        elif r["status"] == "FAILED":
            o["ok"] = False
            if real_fail:
                o["undecided"] = False
                o["failed_checks"] = [{"desc": c["desc"], "name": c["name"], "loc": c["loc"]} for c in real_fail]
                o["messages"] = [f"FAILED: {c['desc']} @ {c['loc']}" for c in real_fail[:8]]
            elif unwind_fail:
                o["undecided"] = True
                o["messages"] = ["unwinding assertion failed (bound too small): " + unwind_fail[0]["loc"]]
            elif "CBMC timed out" in r["tail"] or "CBMC failed" in r["tail"] or "out of memory" in r["tail"].lower():
                o["undecided"] = True
                o["messages"] = ["CBMC gave no verdict (timeout / resource limit): " + r["tail"][-200:].strip()]
            elif r["should_panic_note"] or True:
                # should_panic harness that did not panic, or failed covers
                o["undecided"] = False
                o["failed_checks"] = [{"desc": "harness expected a panic that did not happen (should_panic) or verification failed without a failed check", "name": "", "loc": ""}]
                o["messages"] = [r["tail"][-600:]]
        else:
            o.update({"ok": False, "undecided": True, "messages": ["no verdict (timeout / out of memory): " + r["tail"][-300:]]})
    return {"cmd": " ".join(cmd), "wall_s": secs, "rc": rc, "stderr_tail": err[-1500:] if rc not in (0, 1) else ""}


def run_kani_file(unit, spec, stage_dir, scratch, tier, prop):
    """Single-file Kani unit: regions extracted from /repo (same extractor as Verus) + harnesses in the template."""
    name = spec["name"]
    tpl = os.path.join(unit["dir"], spec["template"])
    ex = Extractor(stage_dir)
    try:
        text = ex.assemble(open(tpl).read())
    except (ExtractError, rustlex.LexError) as e:
        raise Undecided(f"kani-file unit {unit['name']}/{name}: extraction failed: {e}")
    wd = os.path.join(scratch, "kanifile", unit["name"])
    os.makedirs(wd, exist_ok=True)
    f = os.path.join(wd, name + ".rs")
    open(f, "w").write(text)
    wanted = [h["name"] for h in spec.get("harness", []) if tier_ok(h.get("tier", "quick"), tier)
              and prop in h.get("serves", spec.get("serves", []))]
    jobs = max(1, min(len(wanted), int(os.environ.get("VERIF_KANI_JOBS", "12")), 6 if tier == "quick" else 3, _slot_budget(tier)))
    h_timeout = spec.get("timeout", 600) * (1 if tier == "quick" else 3)
    cmd = ["kani", f, "--harness-timeout", f"{h_timeout}s", "-Z", "unstable-options",
           "-j", str(jobs), "--output-format", "terse", "--output-into-files"]
    if len(wanted) < len(spec.get("harness", [])):
        for w in wanted:
            cmd += ["--harness", "harness::" + w]
        cmd += ["--exact"]
    kenv = {"RUSTFLAGS": f"--edition {spec['edition']}"} if spec.get("edition") else None
    rdir = os.path.join(wd, "result_output_dir")
    if os.path.isdir(rdir):
        for fn in os.listdir(rdir):
            if fn.split("::")[-1] in wanted:
                os.remove(os.path.join(rdir, fn))
    rounds = (len(wanted) + jobs - 1) // jobs
    with cbmc_slots(jobs, tier):
        rc, out, err, secs, to = run(cmd, cwd=wd, timeout=h_timeout * (rounds + 1) + 300, env=kenv,
                                     mem_kb=int(os.environ.get("VERIF_KANI_MEM_KB", str(40 * 1024 * 1024))))
    if "error: could not compile" in err or "error[E" in err or (rc != 0 and "Checking harness" not in out):
        raise Undecided(f"kani-file {name}: build failed:\n{(out + err)[-2500:]}")
    res = {}
    if os.path.isdir(rdir):
        for fn in os.listdir(rdir):
            hn = fn.split("::")[-1]
            if hn in wanted:
                p = os.path.join(wd, f"{name}.{hn}.result")
                shutil.copyfile(os.path.join(rdir, fn), p)
                res[hn] = p
    obs = []
    for h in spec.get("harness", []):
        if h["name"] not in wanted:
            continue
        o = {"id": f"kanifile:{unit['name']}/{name}:{h['name']}", "harness": h["name"], "unit": unit["name"], "serves": h.get("serves", spec.get("serves", [])),
             "kind": h.get("kind", "proof"), "bound": h.get("bound", ""), "what": h.get("what", ""), "engine": "Kani 0.68 / CBMC 6.11 (single file of extracted regions)"}
        if h["name"] not in res:
            o.update({"ok": False, "undecided": True, "messages": ["no result for harness"]})
        else:
            r = parse_kani_result_file(res[h["name"]])
            o["time_s"] = r["time_s"]
            o["n_checks"] = r["n_checks"]
            o["covers"] = list(r["covers"])
            unsupported = [c for c in r["failed"] if "is not currently supported by Kani" in c["desc"] or "unsupported_construct" in c["name"]]
            real_fail = [c for c in r["failed"] if "unwinding assertion" not in c["desc"] and c not in unsupported]
            if r["status"] == "SUCCESSFUL" and r["n_checks"] > 0:
                o["ok"] = True
                o["undecided"] = False
            elif r["status"] == "FAILED" and real_fail:
                o.update({"ok": False, "undecided": False, "failed_checks": [{"desc": c["desc"], "name": c["name"], "loc": c["loc"]} for c in real_fail],
                          "messages": [f"FAILED: {c['desc']} @ {c['loc']}" for c in real_fail[:8]]})
            else:
                o.update({"ok": False, "undecided": True, "messages": ["no verdict: " + r["tail"][-300:]]})
        obs.append(o)
    info = {"file": f, "items": ex.log["items"], "rewrites": ex.log["rewrites"], "local_rewrites": ex.log["local_rewrites"],
            "assumptions_scan": [], "wall_s": secs, "cmd": " ".join(cmd), "env": kenv}
    return obs, info


def kani_file_playback(ob, info, scratch):
    """Concrete playback for a single-file Kani harness: print the generated unit test and run it natively."""
    f = info["file"]
    wd = os.path.dirname(f)
    cmd = ["kani", f, "--harness", ob["harness"], "-Z", "concrete-playback", "--concrete-playback=print"]
    rc, out, err, secs, to = run(cmd, cwd=wd, timeout=900, env=info.get("env"))
    m = re.search(r"```\s*\n(.*?#\[test\].*?)```", out, re.S)
    res = {"generated": bool(m), "cmd": " ".join(cmd)}
    if not m:
        res["note"] = "no concrete playback test printed"
        return res
    test = m.group(1)
    res["test_source"] = test
    # native execution: the extracted file + the test + kani's concrete-playback shim are not available outside kani;
    # values are decoded by kani::concrete_playback_run, so run through `kani playback`-less path: rustc --test needs the kani crate.
    res["note"] = "concrete values listed in test_source (byte vectors per kani::any() call)"
    return res


def kani_playback(pkg, ob, flags, stage_dir, scratch):
    """Re-run one failing harness with concrete playback and execute the generated test natively on the real code."""
    tdir = os.path.join(scratch, "target-" + pkg)
    cmd = ["cargo", "kani", "-p", pkg, "--target-dir", tdir, "--output-format", "terse", "--harness", ob["harness"],
           "-Z", "concrete-playback", "--concrete-playback=inplace", "-Z", "unstable-options", "--harness-timeout", "900s"]
    for z in sorted(set(flags)):
        cmd += ["-Z", z]
    rc, out, err, secs, to = run(cmd, cwd=stage_dir, timeout=int(os.environ.get("VERIF_PLAYBACK_TIMEOUT", "600")))
    res = {"generated": False, "cmd": " ".join(cmd), "timed_out": to}
    m = re.search(r"fn (kani_concrete_playback_\w+)", out + err)
    # find the injected test in the staged sources
    test_name = None
    test_src = None
    for root, _, fs in os.walk(os.path.join(stage_dir, "packages")):
        if "/target" in root:
            continue
        for fn in fs:
            if fn.endswith(".rs"):
                p = os.path.join(root, fn)
                s = open(p, errors="replace").read()
                mm = re.search(r"#\[test\]\s*fn (kani_concrete_playback_" + re.escape(ob["harness"]) + r"\w*)\(\)\s*\{", s)
                if mm:
                    test_name = mm.group(1)
                    a = mm.start()
                    b = rustlex.match_close(rustlex.mask(s), s.index("{", mm.end() - 1))
                    test_src = s[a:b + 1]
    if not test_name:
        res["note"] = "kani produced no concrete playback test: " + (out + err)[-500:]
        return res
    res["generated"] = True
    res["test_name"] = test_name
    res["test_source"] = test_src
    # every generated test (one per failed check) is executed natively IN ITS OWN PROCESS: harnesses keep ghost
    # state in `static mut`s, which Kani resets per harness but a shared test process would not
    names = []
    for root, _, fs in os.walk(os.path.join(stage_dir, "packages")):
        if "/target" in root:
            continue
        for fn in fs:
            if fn.endswith(".rs"):
                s = open(os.path.join(root, fn), errors="replace").read()
                names += re.findall(r"fn (kani_concrete_playback_" + re.escape(ob["harness"]) + r"_\d+)\(\)", s)
    names = sorted(set(names))[:6]
    env = {"CARGO_TARGET_DIR": os.path.join(scratch, "target-playback-" + pkg)}
    passed = failed = 0
    outs = []
    for nm in names:
        cmd2 = ["cargo", "kani", "playback", "-Z", "concrete-playback", "-p", pkg, "--", nm, "--exact", "--test-threads=1"]
        rc2, out2, err2, secs2, to2 = run(cmd2, cwd=stage_dir, timeout=1800, env=env)
        # --exact needs the full path; fall back to substring filter
        ran = re.search(r"test result: (ok|FAILED)\. (\d+) passed; (\d+) failed", out2 + err2)
        if not ran or (int(ran.group(2)) + int(ran.group(3)) == 0):
            cmd2 = ["cargo", "kani", "playback", "-Z", "concrete-playback", "-p", pkg, "--", nm, "--test-threads=1"]
            rc2, out2, err2, secs2, to2 = run(cmd2, cwd=stage_dir, timeout=1800, env=env)
            ran = re.search(r"test result: (ok|FAILED)\. (\d+) passed; (\d+) failed", out2 + err2)
        res["playback_cmd"] = " ".join(cmd2)
        tail = "\n".join(l for l in (out2 + "\n" + err2).split("\n") if len(l) < 400 and ("panicked" in l or "test " in l or "assert" in l.lower()))
        outs.append(f"== {nm}\n" + tail[-1200:])
        if ran:
            passed += int(ran.group(2))
            failed += int(ran.group(3))
    res["playback_output_tail"] = "\n".join(outs)[-6000:]
    res["native_tests_ran"] = passed + failed
    res["reproduced_on_real_code"] = failed > 0
    res["native_all_passed"] = failed == 0 and passed > 0
    return res


# ----------------------------------------------------------------------------------------------
# main
# ----------------------------------------------------------------------------------------------
def manifest_level(prop):
    try:
        man = json.load(open(os.path.join(ROOT, "MANIFEST.json")))
        for c in man["checks"]:
            if c["property_id"] == prop:
                return c["level_claimed"]["category"]
    except Exception:
        pass
    return "other"


_NATIVE_CACHE = {}


def native_replay(unit, rp, stage_dir, scratch):
    """Run a small native crate (path-dependent on the staged repo) that searches for a failing input of the real code."""
    src = os.path.join(unit["dir"], rp["crate"])
    dst = os.path.join(scratch, "native-" + unit["name"] + "-" + os.path.basename(rp["crate"]))
    if dst in _NATIVE_CACHE:
        return _NATIVE_CACHE[dst]
    shutil.rmtree(dst, ignore_errors=True)
    shutil.copytree(src, dst)
    for root, _, fs in os.walk(dst):
        for fn in fs:
            if fn == "Cargo.toml" or fn.endswith(".rs"):
                p = os.path.join(root, fn)
                s = open(p).read().replace("@STAGE@", stage_dir)
                open(p, "w").write(s)
    lock = os.path.join(stage_dir, "Cargo.lock")
    if os.path.exists(lock):
        shutil.copy(lock, os.path.join(dst, "Cargo.lock"))
    rc, out, err, secs, to = run(["cargo", "run", "--offline", "--quiet", "--target-dir", os.path.join(scratch, "target-native")],
                                 cwd=dst, timeout=rp.get("timeout", 600), env={"RUST_BACKTRACE": "0"})
    res = {"cmd": "cargo run --offline (crate " + rp["crate"] + ", path dependency on the staged /repo)", "rc": rc,
           "output_tail": (out + "\n" + err)[-3000:], "found_failing_input": "FAILING-INPUT" in out, "timed_out": to}
    _NATIVE_CACHE[dst] = res
    return res


def main(argv):
    import argparse
    ap = argparse.ArgumentParser()
    ap.add_argument("prop")
    ap.add_argument("--tier", default=os.environ.get("VERIF_TIER", "quick"))
    ap.add_argument("--keep", action="store_true")
    ap.add_argument("--only", default=None, help="regex filter on obligation ids (debugging; evidence marks it)")
    ap.add_argument("--replay", default=None)
    args = ap.parse_args(argv)
    prop = args.prop
    tier = args.tier if args.tier in ("quick", "thorough") else "quick"
    seed = int(os.environ.get("VERIF_SEED", "0") or 0)
    if args.replay:
        print(open(args.replay).read())
        return 0
    t0 = time.time()
    units = load_units()
    fixed = os.environ.get("VERIF_SCRATCH_FIXED")  # development aid: reuse one scratch dir (incremental Kani builds)
    if fixed:
        os.makedirs(fixed, exist_ok=True)
        scratch = fixed
        args.keep = True
        shutil.rmtree(os.path.join(fixed, "verus"), ignore_errors=True)
        for dn in os.listdir(fixed):
            if dn.startswith("target-"):
                shutil.rmtree(os.path.join(fixed, dn, "result_output_dir"), ignore_errors=True)
    else:
        scratch = tempfile.mkdtemp(prefix=f"folo-verif-{prop}-", dir=os.environ.get("VERIF_SCRATCH", "/tmp"))
    rc = 2
    try:
        rc = check(prop, tier, seed, units, scratch, t0, args)
    except Undecided as e:
        log(f"UNDECIDED property={prop}: {e}")
        write_evidence(prop, tier, seed, [], {}, time.time() - t0, note=f"UNDECIDED: {e}", violations=0)
        rc = 2
    finally:
        if not args.keep:
            shutil.rmtree(scratch, ignore_errors=True)
        else:
            log(f"scratch kept: {scratch}")
    return rc


HPATHS = {}


def check(prop, tier, seed, units, scratch, t0, args):
    HPATHS.update(harness_paths(units))
    # collect obligations
    kani_obs = {}   # pkg -> list
    kani_flags = {}
    verus_jobs = []
    kfile_jobs = []
    involved_units = []
    for u in units:
        used = False
        for h in u.get("harness", []):
            if prop in h.get("serves", u.get("property", [])) and tier_ok(h.get("tier", "quick"), tier):
                o = dict(h)
                o["harness"] = h["name"]
                o["id"] = f"kani:{u['name']}:{h['name']}"
                o["unit"] = u["name"]
                o["serves"] = h.get("serves", u.get("property", []))
                o["kind"] = h.get("kind", "bounded")
                o["bound"] = h.get("bound", "")
                o["what"] = h.get("what", "")
                pkg = h.get("package", u.get("package"))
                hp = HPATHS.get((u["name"], h["name"]))
                if hp:
                    o["harness_path"] = hp
                kani_obs.setdefault(pkg, []).append(o)
                kani_flags.setdefault(pkg, set()).update(h.get("flags", u.get("flags", [])))
                used = True
        for s in u.get("kani_file", []):
            if any(prop in h.get("serves", s.get("serves", [])) for h in s.get("harness", [])) and tier_ok(s.get("tier", "quick"), tier):
                kfile_jobs.append((u, s))
                used = True
        for s in u.get("verus", []):
            ftab = s.get("functions", {})
            serves_any = prop in s.get("serves", u.get("property", [])) or any(prop in v.get("serves", []) for v in ftab.values())
            if serves_any and tier_ok(s.get("tier", "quick"), tier):
                verus_jobs.append((u, s))
                used = True
        if used:
            involved_units.append(u)
    if args.only:
        rx = re.compile(args.only)
        for pkg in list(kani_obs):
            kani_obs[pkg] = [o for o in kani_obs[pkg] if rx.search(o["id"])]
            if not kani_obs[pkg]:
                del kani_obs[pkg]
        verus_jobs = [(u, s) for (u, s) in verus_jobs if rx.search(f"verus:{u['name']}/{s['name']}")]
    if args.only:
        kfile_jobs = [(u, s) for (u, s) in kfile_jobs if re.search(args.only, f"kanifile:{u['name']}/{s['name']}")]
    if not kani_obs and not verus_jobs and not kfile_jobs:
        raise Undecided(f"no obligations registered for {prop} in tier {tier}")
    stage_dir = stage(scratch)
    # overlays: all units that touch a package we are going to build (harness modules reference each other)
    pkgs = set(kani_obs)
    ov_units = [u for u in units if u.get("package") in pkgs or any(h.get("package") in pkgs for h in u.get("harness", []))]
    overlays = overlay(stage_dir, ov_units) if pkgs else {}
    infos = {"overlays": overlays, "verus": {}, "kani": {}}
    all_obs = []
    with cf.ThreadPoolExecutor(max_workers=6) as pool:
        futs = {}
        for (u, s) in verus_jobs:
            futs[pool.submit(run_verus_spec, u, s, stage_dir, scratch, tier)] = ("verus", u, s)
        for (u, s) in kfile_jobs:
            futs[pool.submit(run_kani_file, u, s, stage_dir, scratch, tier, prop)] = ("kanifile", u, s)
        for pkg, obs in kani_obs.items():
            futs[pool.submit(kani_group, pkg, obs, kani_flags.get(pkg, ()), stage_dir, scratch, tier)] = ("kani", pkg, obs)
        undec = []
        for f in cf.as_completed(futs):
            tag = futs[f]
            try:
                r = f.result()
            except Undecided as e:
                # a job that could not be built / extracted is an undecided obligation of its own; the other jobs'
                # verdicts (including violations) are still reported
                undec.append(str(e))
                jid = f"{tag[0]}:{tag[1]['name']}/{tag[2]['name']}" if tag[0] != "kani" else f"kani:{tag[1]}:<build>"
                all_obs.append({"id": jid + ":<job>", "harness": "<job>", "unit": (tag[1]["name"] if tag[0] != "kani" else "?"), "ok": False, "undecided": True, "serves": [prop], "kind": "bounded",
                                "engine": tag[0], "messages": [str(e)[:1500]], "what": "job could not be built or extracted", "bound": ""})
                continue
            if tag[0] == "verus":
                obs, info = r
                # keep only obligations serving this property
                for o in obs:
                    if prop in o["serves"]:
                        all_obs.append(o)
                infos["verus"][f"{tag[1]['name']}/{tag[2]['name']}"] = info
            elif tag[0] == "kanifile":
                obs, info = r
                for o in obs:
                    if prop in o["serves"]:
                        all_obs.append(o)
                infos["verus"][f"{tag[1]['name']}/{tag[2]['name']}"] = info
            else:
                infos["kani"][tag[1]] = r
                all_obs += tag[2]
    # classify
    findings, _fixed = load_known()
    known_for_prop = [f for f in findings if f["property"] == prop]
    violations = []
    known_hits = []
    undecided = []
    for o in all_obs:
        if o.get("ok"):
            continue
        if o.get("undecided"):
            undecided.append(o)
            continue
        # is every failed check covered by a known finding?
        if o["id"].startswith("kani:") or o["id"].startswith("kanifile:"):
            fcs = o.get("failed_checks", [])
            unlisted = []
            hits = []
            for c in fcs:
                k = [f for f in known_for_prop if f["obligation"].split("/")[0] == o["harness"] and
                     ("/" not in f["obligation"] or c["desc"].strip('"').startswith(f["obligation"].split("/", 1)[1])
                      or f["obligation"].split("/", 1)[1] in c.get("loc", ""))]
                if k:
                    hits.append((k[0], c))
                else:
                    unlisted.append(c)
            if fcs and not unlisted:
                o["known_finding"] = True
                for k, c in hits:
                    known_hits.append((k, o))
                continue
            o["failed_checks_unlisted"] = unlisted
        else:
            k = [f for f in known_for_prop if f["obligation"] == o["id"]]
            if k:
                o["known_finding"] = True
                known_hits.append((k[0], o))
                continue
        violations.append(o)
    # vacuity results from verus twins
    for key, info in infos["verus"].items():
        vac = info.get("vacuity")
        if vac and vac.get("ran") and vac.get("functions_that_verify_false"):
            bad = [x for x in vac["functions_that_verify_false"]]
            allow = set(info.get("vacuity_allow", []))
            bad = [b for b in bad if b.split("::", 1)[-1] not in allow]
            if bad:
                undecided.append({"id": f"verus:{key}:vacuity", "messages": [f"functions verify `ensures false` (unsatisfiable precondition?): {bad}"]})
    wall = time.time() - t0
    os.makedirs(REPLAY, exist_ok=True)
    rcode = 0
    seen = set()
    for k, o in known_hits:
        key = (k["obligation"])
        if key in seen:
            continue
        seen.add(key)
        print(f"KNOWN-FINDING: property={prop} obligation={k['obligation']} {k['what']}")
    spurious = []
    if violations:
        rcode = 1
        for o in violations:
            rp = os.path.join(REPLAY, f"{prop}-{re.sub(r'[^A-Za-z0-9_.-]', '_', o['id'])}.txt")
            rep = {"property": prop, "obligation": o["id"], "engine": o.get("engine"), "messages": o.get("messages"),
                   "failed_checks": o.get("failed_checks")}
            suffix = ""
            if o["id"].startswith("kanifile:"):
                info = infos["verus"].get(o["id"].split(":")[1], {})
                unit = [u for u in involved_units if u["name"] == o["unit"]][0]
                found = False
                for rpdef in unit.get("replay", []):
                    if re.search(rpdef["for"], o["id"]):
                        try:
                            nat = native_replay(unit, rpdef, stage_dir, scratch)
                        except Exception as e:
                            nat = {"found_failing_input": False, "note": f"native replay crashed: {e}"}
                        rep["native_search"] = nat
                        found = bool(nat.get("found_failing_input"))
                        break
                try:
                    pb = kani_file_playback(o, info, scratch)
                except Exception as e:
                    pb = {"generated": False, "note": f"playback crashed: {e}"}
                rep["counterexample_playback"] = pb
                if not found:
                    # the extracted region's counterexample values are listed, but not executed on the whole crate
                    suffix = " no-failing-input-found"
            elif o["id"].startswith("kani:"):
                pkg = [p for p, obs in kani_obs.items() if o in obs][0]
                # 1. paired native search on the real code, if the unit declares one for this obligation (cheap)
                unit = [u for u in involved_units if u["name"] == o["unit"]][0]
                found = False
                for rpdef in unit.get("replay", []):
                    if re.search(rpdef["for"], o["id"]):
                        try:
                            nat = native_replay(unit, rpdef, stage_dir, scratch)
                        except Exception as e:
                            nat = {"found_failing_input": False, "note": f"native replay crashed: {e}"}
                        rep["native_search"] = nat
                        found = bool(nat.get("found_failing_input"))
                        break
                # 2. otherwise Kani's own counterexample, executed natively
                if not found:
                    try:
                        pb = kani_playback(pkg, o, kani_flags.get(pkg, ()), stage_dir, scratch)
                    except Exception as e:  # replay is best-effort
                        pb = {"generated": False, "note": f"playback crashed: {e}"}
                    rep["counterexample_playback"] = pb
                    if not pb.get("reproduced_on_real_code"):
                        # no counterexample, or one that does not fail natively (Kani's concrete playback loses values
                        # drawn inside callbacks): still a violation of an obligation that holds on the unchanged tree
                        suffix = " no-failing-input-found"
            else:
                # Verus: paired native search, if the unit declares one for this obligation
                unit = [u for u in involved_units if u["name"] == o["unit"]][0]
                nat = None
                for rpdef in unit.get("replay", []):
                    if re.search(rpdef["for"], o["id"]):
                        try:
                            nat = native_replay(unit, rpdef, stage_dir, scratch)
                        except Exception as e:
                            nat = {"found_failing_input": False, "note": f"native replay crashed: {e}"}
                        break
                rep["native_search"] = nat
                info = infos["verus"].get(o["id"].split(":")[1], {})
                rep["verifier_output"] = info.get("stderr_tail", "")
                if not (nat and nat.get("found_failing_input")):
                    suffix = " no-failing-input-found"
            with open(rp, "w") as f:
                f.write(f"# replay file for a failed contract obligation\n# property={prop}\n# obligation={o['id']}\n")
                f.write(json.dumps(rep, indent=1)[:200000])
                f.write("\n")
            print(f"VIOLATION property={prop} replay={rp}{suffix}")
            for msg in (o.get("messages") or [])[:4]:
                log("   " + msg.replace("\n", "\n   ")[:1500])
    elif undecided:
        rcode = 2
        for o in undecided:
            log(f"UNDECIDED obligation {o['id']}: {(o.get('messages') or ['?'])[0][:600]}")
    write_evidence(prop, tier, seed, all_obs, infos, wall, violations=len(violations), undecided=undecided,
                   known=[k for k, _ in known_hits], only=args.only)
    n_ok = len([o for o in all_obs if o.get("ok")])
    log(f"[{prop}] tier={tier} obligations={len(all_obs)} discharged={n_ok} violations={len(violations)} undecided={len(undecided)} known={len(known_hits)} wall={wall:.0f}s")
    return rcode


def write_evidence(prop, tier, seed, obs, infos, wall, note=None, violations=0, undecided=(), known=(), only=None):
    os.makedirs(EVID, exist_ok=True)
    level = manifest_level(prop)
    # obligations whose failure is a listed known finding are reported under known_findings_hit, not as
    # (un)discharged obligations
    proof_obs = [o for o in obs if o.get("kind") == "proof" and not o.get("known_finding")]
    bounded_obs = [o for o in obs if o.get("kind") != "proof" and not o.get("known_finding")]
    assumptions = []
    trusted = []
    rewrites = {}
    functions = []
    cmds = []
    smt_time = 0.0
    for key, info in infos.get("verus", {}).items():
        for a in info.get("assumptions_scan", []):
            trusted.append(f"verus {key}: {a}")
        for r, v in info.get("rewrites", {}).items():
            rewrites[f"{key}:{r}"] = v
        for lr in info.get("local_rewrites", []):
            rewrites[f"{key}:local:{lr['where']}:{lr['from'][:40]}"] = {"hits": lr["hits"], "to": lr["to"][:120]}
        for it in info.get("items", []):
            functions.append(f"{it['file']}:{it['lines'][0]}-{it['lines'][1]} {it['kind']} {it['selector']}"
                             + (f" [dropped: {'; '.join(it['dropped'])}]" if it.get("dropped") else ""))
        cmds.append(info.get("cmd", ""))
    for pkg, info in infos.get("kani", {}).items():
        cmds.append(info.get("cmd", ""))
    units_used = sorted(set(o.get("unit", "?") for o in obs))
    for u in load_units():
        if u["name"] in units_used:
            for a in u.get("assumptions", []):
                assumptions.append(f"[{u['name']}] {a}")
            for fdesc in u.get("functions_under_contract", []):
                functions.append(fdesc)
    for o in obs:
        smt_time += o.get("time_s") or 0.0
    samples = []
    for o in obs[:400]:
        samples.append({k: o.get(k) for k in ("id", "engine", "kind", "bound", "what", "ok", "time_s", "n_checks", "covers", "known_finding") if o.get(k) not in (None, "")}
                       | ({"messages": o.get("messages")} if not o.get("ok") else {}))
    cov = {
        "obligations": len(proof_obs),
        "discharged": len([o for o in proof_obs if o.get("ok")]),
        "bounded_obligations": len(bounded_obs),
        "bounded_discharged": len([o for o in bounded_obs if o.get("ok")]),
        "checker_cmd": " ;; ".join(c for c in cmds if c) or "none",
        "trusted_base": sorted(set(trusted)) + ["rustc MIR -> goto translation by kani-compiler", "CBMC 6.11 + CaDiCaL", "Verus 0.2026.09.13 + Z3", "lib/extract.py (cuts real function text; rewrite table reported under rewrites)"],
        "evaluations": len(obs),
        "distinct_nontrivial": len(set(o["id"] for o in obs if o.get("ok") and (o.get("n_checks", 1) or 0) > 0)),
        "rule": "one evaluation = one contract obligation (a Kani harness = one function contract from an arbitrary invariant-satisfying pre-state, or one Verus function/lemma); non-trivial = discharged with > 0 generated checks and every cover satisfied",
        "samples": samples,
        "functions_under_contract": sorted(set(functions)),
        "rewrites_applied": rewrites,
        "solver_time_s": round(smt_time, 2),
        "undecided": [{"id": o["id"], "why": (o.get("messages") or ["?"])[0][:300]} for o in undecided],
        "known_findings_hit": [k["obligation"] for k in known],
        "vacuity": {k: v.get("vacuity") for k, v in infos.get("verus", {}).items()},
        "overlays": infos.get("overlays", {}),
        "explanation": (note or "") + " Contract-based deductive verification of the real code: Kani function-contract harnesses appended (add-only, #[cfg(kani)]) to a staged copy of /repo and Verus on function bodies extracted mechanically from /repo on this run. 'obligations' counts only obligations of kind=proof (complete for their stated domain); size-bounded inductive harnesses are counted under bounded_obligations and never as proved.",
        "exhaustive": False,
    }
    if only:
        cov["explanation"] = f"PARTIAL RUN (--only {only}). " + cov["explanation"]
    ev = {
        "property_id": prop, "tier": tier, "seed": seed, "level": level, "coverage": cov,
        "assumptions": sorted(set(assumptions)), "wall_s": round(wall, 1), "violations": violations,
    }
    # partial (debugging) runs never overwrite the evidence file of record
    fname = f"{prop}.json" if not only else f"{prop}.partial.json"
    with open(os.path.join(EVID, fname), "w") as f:
        json.dump(ev, f, indent=1)


if __name__ == "__main__":
    sys.exit(main(sys.argv[1:]))
