"""Minimal Rust lexical helpers: comment/string masking, brace matching, item location.

Everything here works on *offsets into the original text*. `mask()` returns a copy of the text of the
same length in which the contents of comments, string literals and char literals are replaced by
spaces, so regexes and brace matching on the masked text give offsets valid in the original.
"""
import re


class LexError(Exception):
    pass


def mask(src: str, keep_strings: bool = False) -> str:
    out = list(src)
    i, n = 0, len(src)

    def blank(a, b):
        for k in range(a, b):
            if out[k] != "\n":
                out[k] = " "

    while i < n:
        c = src[i]
        if c == "/" and i + 1 < n and src[i + 1] == "/":
            j = src.find("\n", i)
            j = n if j < 0 else j
            blank(i, j)
            i = j
        elif c == "/" and i + 1 < n and src[i + 1] == "*":
            depth, j = 1, i + 2
            while j < n and depth:
                if src.startswith("/*", j):
                    depth += 1
                    j += 2
                elif src.startswith("*/", j):
                    depth -= 1
                    j += 2
                else:
                    j += 1
            blank(i, j)
            i = j
        elif c == '"' or (c in "br" and re.match(r'(b?r#*"|b")', src[i:i + 8]) and (i == 0 or not (src[i - 1].isalnum() or src[i - 1] == "_"))):
            m = re.match(r'(b?)(r(#*))?"', src[i:])
            if not m:
                i += 1
                continue
            start = i + m.end()
            if m.group(2):  # raw string
                term = '"' + (m.group(3) or "")
                j = src.find(term, start)
                if j < 0:
                    raise LexError("unterminated raw string")
                end = j
                nxt = j + len(term)
            else:
                j = start
                while j < n and src[j] != '"':
                    j += 2 if src[j] == "\\" else 1
                end = j
                nxt = j + 1
            if not keep_strings:
                blank(start, end)
            i = nxt
        elif c == "'":
            # char literal or lifetime
            m = re.match(r"'(\\.[^']*|[^\\'])'", src[i:])
            if m:
                blank(i + 1, i + m.end() - 1)
                i += m.end()
            else:
                i += 1
        else:
            i += 1
    return "".join(out)


OPEN = {"{": "}", "(": ")", "[": "]"}
CLOSE = {v: k for k, v in OPEN.items()}


def match_close(masked: str, pos: int) -> int:
    """pos is the offset of an opening bracket; returns offset of its matching close."""
    assert masked[pos] in OPEN, masked[pos:pos + 20]
    stack = []
    for i in range(pos, len(masked)):
        c = masked[i]
        if c in OPEN:
            stack.append(c)
        elif c in CLOSE:
            if not stack or stack[-1] != CLOSE[c]:
                raise LexError(f"unbalanced bracket at {i}")
            stack.pop()
            if not stack:
                return i
    raise LexError("unterminated bracket")


def strip_test_mods(src: str, masked: str):
    """Blank out `#[cfg(test)] ... mod name { ... }` blocks in the masked text (so nothing in them is found)."""
    out = masked
    for m in re.finditer(r"#\[cfg\(test\)\]", masked):
        # find following `mod X {` before any other item keyword `fn|struct|impl`
        m2 = re.compile(r"\bmod\s+\w+\s*\{").search(masked, m.end())
        if not m2:
            continue
        between = masked[m.end():m2.start()]
        if re.search(r"\b(fn|struct|impl|enum|trait|use|const|static)\b", re.sub(r"#\[[^\]]*\]", "", between)):
            continue
        end = match_close(masked, m2.end() - 1)
        out = out[:m.start()] + re.sub(r"[^\n]", " ", out[m.start():end + 1]) + out[end + 1:]
    return out


def line_start(src: str, pos: int) -> int:
    return src.rfind("\n", 0, pos) + 1


def line_of(src: str, pos: int) -> int:
    return src.count("\n", 0, pos) + 1


def find_impl_blocks(masked: str, type_name: str, trait_name=None):
    """Yield (open_brace, close_brace) for `impl ... Type ... {` blocks."""
    res = []
    for m in re.finditer(r"(?m)^[ \t]*(unsafe\s+)?impl\b([^{;]*)\{", masked):
        hdr = m.group(2)
        # header is "<generics> Trait for Type<...> where ..." or "<generics> Type<...>"
        if " for " in hdr:
            tr, ty = hdr.split(" for ", 1)
        else:
            tr, ty = None, hdr
        # simpler: first identifier in `ty` after stripping leading generics `<...>`
        t = ty.strip()
        if t.startswith("<"):
            depth = 0
            for k, ch in enumerate(t):
                if ch == "<":
                    depth += 1
                elif ch == ">":
                    depth -= 1
                    if depth == 0:
                        t = t[k + 1:].strip()
                        break
        idm = re.match(r"(?:\w+::)*([A-Za-z_]\w*)", t)
        if not idm or idm.group(1) != type_name:
            continue
        if trait_name is not None:
            if tr is None:
                continue
            trs = tr.strip()
            if trs.startswith("<"):
                depth = 0
                for k, ch in enumerate(trs):
                    if ch == "<":
                        depth += 1
                    elif ch == ">":
                        depth -= 1
                        if depth == 0:
                            trs = trs[k + 1:].strip()
                            break
            trm = re.match(r"(?:\w+::)*([A-Za-z_]\w*)", trs)
            if not trm or trm.group(1) != trait_name:
                continue
        elif tr is not None:
            continue
        ob = m.end() - 1
        res.append((ob, match_close(masked, ob)))
    return res


def find_fn(src: str, masked: str, name: str, impl_of=None, trait_of=None, nth=None):
    """Locate `fn name`. Returns dict(start, sig_end(open brace offset), end(close brace offset)).

    start = beginning of the line holding the `fn` keyword's qualifiers (attributes/docs excluded).
    """
    spans = [(0, len(masked))]
    if impl_of:
        spans = find_impl_blocks(masked, impl_of, trait_of)
        if not spans:
            raise LexError(f"impl block for {impl_of} (trait {trait_of}) not found")
    hits = []
    for a, b in spans:
        for m in re.finditer(r"\bfn\s+" + re.escape(name) + r"\b", masked[a:b]):
            pos = a + m.start()
            if not impl_of:
                # require top-level (depth 0) when no impl given
                depth = masked.count("{", 0, pos) - masked.count("}", 0, pos)
                if depth != 0:
                    continue
            hits.append(pos)
    if nth is not None:
        if nth >= len(hits):
            raise LexError(f"fn {name}: only {len(hits)} matches, wanted #{nth}")
        hits = [hits[nth]]
    if len(hits) != 1:
        raise LexError(f"fn {name} (impl {impl_of}): {len(hits)} matches, need exactly 1")
    pos = hits[0]
    start = line_start(src, pos)
    # the body's opening brace: first `{` at bracket depth 0 after the parameter list
    i = masked.index("(", pos)
    i = match_close(masked, i) + 1
    depth = 0
    while True:
        c = masked[i]
        if c in "(<[":
            depth += 1 if c != "<" else 0
            if c in "([":
                i = match_close(masked, i)
        elif c == "{":
            break
        elif c == ";":
            raise LexError(f"fn {name} has no body")
        i += 1
    ob = i
    cb = match_close(masked, ob)
    return {"start": start, "fn_kw": pos, "open": ob, "close": cb}


def find_unique(masked_or_src: str, needle: str, a: int = 0, b=None, what="anchor"):
    b = len(masked_or_src) if b is None else b
    seg = masked_or_src[a:b]
    k = seg.find(needle)
    if k < 0:
        raise LexError(f"{what} {needle!r} not found")
    if seg.find(needle, k + 1) >= 0:
        raise LexError(f"{what} {needle!r} matches more than once")
    return a + k


def statement_end(masked: str, pos: int) -> int:
    """Offset one past the end of the statement starting at pos."""
    blocky = re.match(r"\s*(while|for|loop|if|match|unsafe\s*\{)\b", masked[pos:pos + 40]) is not None
    i = pos
    n = len(masked)
    while i < n:
        c = masked[i]
        if c in OPEN:
            j = match_close(masked, i)
            if c == "{" and blocky:
                # `if .. {} else {}` continues
                k = j + 1
                rest = masked[k:k + 200]
                m = re.match(r"\s*else\b", rest)
                if m:
                    i = k + m.end()
                    continue
                # optional trailing semicolon
                m = re.match(r"[ \t]*;", rest)
                return k + (m.end() if m else 0)
            i = j + 1
            continue
        if c == ";":
            return i + 1
        if c in CLOSE:
            return i  # tail expression of enclosing block
        i += 1
    return n


def loops_in(masked: str, a: int, b: int):
    """Offsets of loop headers (`while`/`for`/`loop` keywords) in [a,b) in source order, with the body open brace."""
    res = []
    for m in re.finditer(r"\b(while|for|loop)\b", masked[a:b]):
        kw = a + m.start()
        # for `for<'a>` HRTB skip
        if m.group(1) == "for" and re.match(r"for\s*<", masked[kw:kw + 8]):
            continue
        # impl X for Y  -- not inside fn bodies normally
        # find the body brace: first `{` at depth 0 after header (skipping brackets)
        i = kw + len(m.group(1))
        while True:
            c = masked[i]
            if c in "([":
                i = match_close(masked, i)
            elif c == "{":
                # could be a struct literal / closure block inside the header - rustfmt code rarely has that.
                break
            i += 1
        res.append((kw, i))
    return res
