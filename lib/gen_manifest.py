#!/usr/bin/env python3
"""Generates MANIFEST.json from the table below (single source of truth for claimed / not-applicable properties)."""
import json, os
ROOT = os.path.dirname(os.path.dirname(os.path.abspath(__file__)))

CLAIMS = {
 "C01": dict(level="proof", design="DESIGN.md §3 C01",
   technique="contract-based deductive verification: Verus (vacancy index, layout lemmas; unbounded) + Kani function-contract harnesses on the real code from arbitrary invariant-satisfying pre-states",
   text="Slab layout arithmetic is proved for every object layout (size 1..2^40, align 1..4096) by loop-free Kani contracts; disjointness/alignment/address-stability follow by Verus lemmas over that contract; the vacancy bitmap + tracker are proved by Verus on the real function bodies for any number of slabs (incl. the 64-slab block boundary); slab and raw-pool operations are checked as inductive steps (arbitrary well-formed pre-state, one call, invariant + whole-structure frame after) at slab capacity <= 4 and <= 3 slabs - those are counted as bounded, not as proved. The handle layer and the blind pools (21 source files taken whole) are checked against the raw pool's contract as an executable stand-in: handle conversions keep the issued address; blind pools route every object to an inner pool of exactly its layout and every handle back to the pool that issued it (bounded).",
   note="Trusted: kani-compiler/CBMC, Verus/Z3, the extractor's rewrite table (reported per run), allocator alignment, dependency contracts listed in the evidence. Stand-ins with stated contracts: RawOpaquePool (as callee of the handle layer), std Mutex, BTreeMap (3 slots), catch_unwind. Not covered: cast.rs (macro-generated), the real BTreeMap."),
 "C02": dict(level="other", design="DESIGN.md §3 C02",
   technique="contract-based deductive verification: Kani function-contract harnesses (inductive step from arbitrary invariant-satisfying pre-states) on the real slab / raw pool code; handle layer, blind pools and pool iterator extracted mechanically and checked against their callee's contract",
   text="Accounting (count/len/vacancy bits = occupied slots), destructor-exactly-once on remove / never on remove_unpin / once per live object on slab and pool drop, drop-policy panic iff non-empty, iterator exactness in both directions, capacity >= len and the reserve(n) postcondition are checked as per-operation contracts from every well-formed pre-state at slab capacity <= 3 (pool: <= 3 slabs of capacity 2). Size-bounded, history-unbounded; no obligation here is counted as an unbounded proof. Handle layer (local / managed x opaque / blind, whole files): every release path (drop, shared clones in either order, erase, into_inner, dyn cast, share+erase) reaches pool.remove / remove_unpin exactly once with the issued handle and only when the last shared handle goes. Pool iterator (extracted) over the slab iterator's contract for 0..3 slabs.",
   note="Unwinding is not modelled (catch_unwind/resume_unwind/thread::panicking stubbed by plain calls in harnesses that reach Slab::drop). The handle layer and the pool iterator are verified against contract stand-ins of their callees (RawOpaquePool, SlabIterator), not against the callees' bodies in the same query."),
 "C04": dict(level="other", design="DESIGN.md §3 C04",
   technique="contract-based deductive verification: the representation invariant as a precondition of every user callback (destructor / init closure), checked by Kani harnesses on the real code",
   text="Partial: neither verifier models unwinding. Decided here is the sufficient condition the code relies on: whenever user code runs inside Slab / RawOpaquePool insert and remove, the structure already satisfies its representation invariant (and insert has modified nothing), so a panic at that point leaves len/iteration/capacity describing exactly the live objects. Found and fixed: RawOpaquePool::remove updated len and the vacancy index after the destructor. Managed pools (OpaquePool insert_with / insert_with_unchecked / with_iter, BlindPool insert_with) release their lock before a caught panic is resumed (contract at catch_unwind / resume_unwind). KNOWN FINDING (recorded in known_findings.txt, not repaired): all managed handle types run the object's destructor while holding the pool guard, so dropping a pooled object that owns a handle into the same pool panics (RefCell, local pools) or deadlocks (Mutex, thread-safe pools) - the object-graph clause of C04 does not hold on the current tree; the check prints KNOWN-FINDING for the four listed call sites and exits 0.",
   note="Size-bounded inductive steps (capacity <= 3, <= 2 slabs). Unwinding is represented by contracts at catch_unwind / resume_unwind over a stand-in Mutex; destructors that panic at handle level and the blind handles' nested-drop harnesses (memory) are not covered by Kani (the native replay crate units/pool/replay_handles shows them)."),
 "C09": dict(level="proof", design="DESIGN.md §3 C09",
   technique="contract-based deductive verification: Verus on selection regions extracted mechanically from take()/take_all(); Kani on the extracted float clamp",
   text="Partial: for the regions Any / PreferSame / RequireSame (and, bounded, PreferDifferent) of take() and reduce_processors_until_under_quota, Verus proves for any number of regions and candidates: exactly `count` processors or nothing, every one a candidate, pairwise distinct, one region where required, quota cut is a prefix. The quota->count clamp is proved for every f64. Found and fixed: PreferSame over-selected.",
   note="Everything before a region (candidate filtering, region ordering) is an unchecked precondition; rand/itertools contracts are assumed; the PreferDifferent arm is checked only at small concrete sizes over stand-ins (bounded); take_all's selection is checked at small concrete sizes over stand-ins (bounded); the RequireDifferent arm of take(n) and candidate filtering are not covered."),
 "C10": dict(level="proof", design="DESIGN.md §3 C10",
   technique="contract-based deductive verification: Verus on CpuMask / BitPosition bodies and the pin loop region; Kani full-domain contract for BitPosition",
   text="Partial: the mask handed to sched_setaffinity holds exactly the ids of the processor set, for every id in u32 and every mask width (CpuMask::insert = set insertion, width never shrinks; id <-> (word, bit) round trip for every u32); and the pin status the library records after a pin (processor known iff the set is a single processor; memory region known iff ALL processors of the set share one region) is proved for the decision chain of pin_current_thread_to over stand-in observers, for any number of processors; the per-thread pin-state map returns exactly the last state set for a hardware instance and never touches another instance's state (Kani, <= 2 instances, bounded).",
   note="That the kernel applies the mask, thread spawning, and thread_local! isolation between threads are outside any contract; SmallVec->Vec rewrite (R4); itertools unique().count() replaced by an assumed shim."),
 "C11": dict(level="proof", design="DESIGN.md §3 C11",
   technique="contract-based deductive verification: Verus on emit() arithmetic regions and CpuMask; Kani on mask equality and the extracted quota min",
   text="Partial: cpulist::emit's grouping step and range arithmetic never panic and describe exactly the run, including runs ending at u32::MAX (found and fixed: a 3+ run ending at u32::MAX panicked); masks are sets independent of width; processor-time quota = min(reported count, cgroup quota) for all f64; the NUMA-node join (every possible node that lists processors is reported with its list, nodes without members are skipped) over stand-ins at small concrete sizes.",
   note="Text parsing/formatting (/proc/cpuinfo, sysfs online flags, cgroup files, cpulist::parse) is out of reach: Verus has no str reasoning, Kani is intractable on it; the node join and the quota use stand-ins for those sources."),
}

NA = {
 "C03": "quantifies over thread interleavings and Send/Sync auto-trait membership: Kani has no threads, Verus would need the pool rewritten onto its permission types (a model, not the code), and auto-trait membership is computed by rustc, not expressible as a contract",
 "C05": "every clause is about interleavings and C11 weak-memory outcomes of two threads; Kani executes atomics sequentially and Verus cannot see std::sync::atomic orderings on the real code",
 "C06": "happens-before between the last access and the release is a memory-model property; no contract over a single call can express it with the installed tools",
 "C12": "global registry behind RwLock + thread_local! + ThreadId-keyed HashMap, racing first access and termination of nested initialisers: schedules and liveness; CBMC does not get through hashbrown",
 "C13": "staleness only arises from interleavings of an initialising reader with two writers; there is no sequential obligation whose failure would be the property's failure",
 "C14": "lost wake-ups, shutdown races and join-handle termination are liveness over schedules of real threads",
 "C17": "real OS threads, a lifetime transmute justified by waiting for all results, and behaviour under unwinding: none of the three is modelled by either verifier",
 "C19": "crash points of an async tokio file write against a real filesystem: Verus has no async, no verifier here models the filesystem or process death, key validation is std::path string parsing",
}
PENDING = {}

def main():
    checks = []
    for pid, c in sorted(CLAIMS.items()):
        checks.append({
            "property_id": pid,
            "quick_cmd": f"bin/check {pid} --tier quick",
            "thorough_cmd": f"bin/check {pid} --tier thorough",
            "evidence_file": f"/verif/evidence/{pid}.json",
            "replay_cmd_template": f"bin/check {pid} --replay {{path}}",
            "engine": "folo-verif",
            "level_claimed": {"category": c["level"], "text": c["text"], "design_ref": c["design"]},
            "level_note": c["note"],
            "technique": c["technique"],
        })
    na = [{"property_id": k, "reason": v} for k, v in sorted({**NA, **PENDING}.items())]
    man = {
        "version": 1,
        "setup_cmd": "true",
        "hooks": {"guard": "folo_verif", "enable": "no hooks in /repo: Kani harness modules are appended under #[cfg(kani)] to a staged copy of /repo (add-only) and Verus units are extracted from /repo on every run",
                  "baseline_off_cmd": "cd /repo && cargo nextest run --workspace --no-fail-fast --offline", "source_commits": [], "add_only": True},
        "engines": [{"name": "folo-verif", "path": "/verif/bin/check", "serves_properties": sorted(CLAIMS), "kind_free_text": "contract-based deductive verification driver: Kani 0.68 function-contract harnesses on the real crates + Verus 0.2026.09.13 on mechanically extracted function bodies / regions"}],
        "checks": checks,
        "not_applicable": na,
        "notes": "exit 0 = all obligations discharged, or the only failed checks are listed as `finding:` in /verif/known_findings.txt (each prints a KNOWN-FINDING line; currently 4 lines, all C04: managed handles run destructors under the pool guard); 1 = VIOLATION (a contract obligation fails on /repo's source and is not a listed finding); 2 = undecided (tool limit / lost anchor / timeout) - never an alarm. `fixed:` lines in known_findings.txt (C04, C09, C11 repaired by fix: commits in /repo) suppress nothing. Seeded property-breaking changes with their outcomes: /verif/seeded/README.md. See DESIGN.md.",
    }
    json.dump(man, open(os.path.join(ROOT, "MANIFEST.json"), "w"), indent=1)

if __name__ == "__main__":
    import sys
    sys.path.insert(0, os.path.dirname(os.path.abspath(__file__)))
    try:
        from manifest_extra import EXTRA_CLAIMS, EXTRA_PENDING
        CLAIMS.update(EXTRA_CLAIMS)
        PENDING.update(EXTRA_PENDING)
    except ImportError:
        pass
    for k in CLAIMS:
        NA.pop(k, None)
        PENDING.pop(k, None)
    main()
