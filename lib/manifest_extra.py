EXTRA_CLAIMS = {}
EXTRA_PENDING = {k: "not yet claimed: the contract units for this property are still being built (see DESIGN.md build order); will be claimed or given its final not-applicable reason" for k in ["C07", "C08", "C15", "C16", "C18", "C20"]}
