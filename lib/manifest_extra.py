EXTRA_CLAIMS = {
 "C16": dict(level="other", design="DESIGN.md §3 C16",
   technique="contract-based deductive verification: Kani function-contract harnesses (inductive step from arbitrary bag states) on the real observation bags and pusher",
   text="Partial (single-threaded accounting): every observation of magnitude m with batch size n lands in the first bucket whose bound is >= m (else the overflow bucket), count += n, sum += m*n; publishing (copy_from under the dirty-bitmap mirror invariant, incl. > 63 buckets), merging (sync and snapshot) and push's skip rule neither drop nor double-count. Checked per operation from arbitrary states with a concrete number of buckets (0,1,3; 65 in thorough) - bounded in the bucket count, unbounded in the history.",
   note="Kani runs atomics sequentially: concurrent reports, thread teardown / archiving order and cross-thread totals are not decided."),
 "C18": dict(level="proof", design="DESIGN.md §3 C18",
   technique="contract-based deductive verification: Kani function-contract harnesses (loop-free, full domain) on the real GlobalAlloc wrapper and span arithmetic",
   text="For every layout, pointer, size and counter pre-state, each of the four GlobalAlloc methods forwards its arguments unchanged exactly once, returns the inner result and counts (requested size | full new size, 1) resp. nothing for frees on this thread; span = end - start; report totals are exact sums of spans. Loop-free harnesses over fully symbolic inputs: complete for one thread.",
   note="Kani executes atomics sequentially: totals racing with allocation on other threads are not decided. Registry-of-threads sums are checked for 1..2 threads (bounded)."),
}
EXTRA_PENDING = {k: "not yet claimed: the contract units for this property are still being built (see DESIGN.md build order); will be claimed or given its final not-applicable reason" for k in ["C07", "C08", "C15", "C20"]}
