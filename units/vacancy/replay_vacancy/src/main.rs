//! Native search for a failing input of the REAL vacancy index (the repository's source files are compiled into
//! this crate by path, unmodified): model-based runs of VacancyTracker against a Vec<bool> reference, with slab
//! counts that cross the 64- and 128-slab bitmap block boundaries. Prints FAILING-INPUT lines.
#![allow(dead_code, unused_imports, clippy::all)]

#[path = "@STAGE@/packages/infinity_pool/src/opaque/vacancy_map.rs"]
mod vacancy_map;
#[path = "@STAGE@/packages/infinity_pool/src/opaque/vacancy_tracker.rs"]
mod vacancy_tracker;
pub(crate) use vacancy_map::VacancyMap;
use vacancy_tracker::VacancyTracker;

use std::panic::{catch_unwind, AssertUnwindSafe};

struct Lcg(u64);
impl Lcg {
    fn next(&mut self) -> u64 {
        self.0 = self.0.wrapping_mul(6364136223846793005).wrapping_add(1442695040888963407);
        self.0 >> 33
    }
}

fn run(seed: u64, max_n: usize, steps: usize) -> Option<String> {
    let mut rng = Lcg(seed);
    let mut t = VacancyTracker::new();
    let mut model: Vec<bool> = Vec::new();
    let mut trace: Vec<String> = Vec::new();
    for _ in 0..steps {
        let op = rng.next() % 10;
        if op < 2 {
            // grow
            let add = 1 + (rng.next() as usize) % 70;
            let n = (model.len() + add).min(max_n);
            if n != model.len() {
                trace.push(format!("count({n})"));
                t.update_slab_count(n);
                model.resize(n, true);
            }
        } else if op < 3 {
            // shrink: only trailing slabs that have a vacancy (the pool only removes empty slabs)
            let mut n = model.len();
            let want = (rng.next() as usize) % 70;
            let mut removed = 0;
            while n > 0 && model[n - 1] && removed < want {
                n -= 1;
                removed += 1;
            }
            if n != model.len() {
                trace.push(format!("count({n})"));
                t.update_slab_count(n);
                model.truncate(n);
            }
        } else if !model.is_empty() {
            // flip a bit; bias towards the first vacancy and block boundaries
            let i = match rng.next() % 4 {
                0 => model.iter().position(|b| *b).unwrap_or(0),
                1 => [63usize, 64, 127, 128, 0][(rng.next() % 5) as usize].min(model.len() - 1),
                _ => (rng.next() as usize) % model.len(),
            };
            let v = !model[i];
            trace.push(format!("status({i},{v})"));
            unsafe { t.update_slab_status(i, v) };
            model[i] = v;
        }
        let expect = model.iter().position(|b| *b);
        if t.next_vacancy() != expect {
            return Some(format!("next_vacancy() = {:?}, expected {:?} after {}", t.next_vacancy(), expect, trace.join(" ")));
        }
    }
    None
}

fn main() {
    std::panic::set_hook(Box::new(|_| {}));
    let mut failures = 0;
    let mut runs = 0u32;
    for seed in 0..400u64 {
        for &(max_n, steps) in &[(3usize, 30usize), (70, 120), (200, 300)] {
            runs += 1;
            let r = catch_unwind(AssertUnwindSafe(|| run(seed * 7919 + max_n as u64, max_n, steps)));
            match r {
                Ok(None) => {}
                Ok(Some(msg)) => {
                    failures += 1;
                    println!("FAILING-INPUT seed={seed} max_slabs={max_n}: {msg}");
                }
                Err(_) => {
                    failures += 1;
                    println!("FAILING-INPUT seed={seed} max_slabs={max_n}: the vacancy index panicked");
                }
            }
            if failures >= 3 {
                println!("runs={runs} failures={failures}");
                return;
            }
        }
    }
    println!("runs={runs} failures={failures}");
}
