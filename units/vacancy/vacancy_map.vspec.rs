// Verus unit: packages/infinity_pool/src/opaque/vacancy_map.rs (C01: vacancy index for any slab count)
use vstd::prelude::*;
use vstd::std_specs::bits::*;
use vstd::std_specs::range::RangeBoundsSpec;
use std::ops::{Bound, RangeBounds};
verus! {
global size_of usize == 8;

// ---------------- preamble: assumed / shim contracts on dependencies ----------------
pub assume_specification[ u64::unbounded_shl ](x: u64, s: u32) -> (r: u64)
    ensures r == (if s < 64 { x << s } else { 0u64 });
pub assume_specification[ usize::div_ceil ](a: usize, b: usize) -> (r: usize)
    requires b == 64,   // narrowed to the only divisor used, which is what Kani harness dep_div_ceil_contract checks on the real std
    ensures r as int == (if a % b == 0 { (a / b) as int } else { a / b + 1 });
pub fn vmin(a: usize, b: usize) -> (r: usize) ensures r == (if a <= b { a } else { b }) { if a <= b { a } else { b } }
// num_integer::Integer::div_rem for usize (cross-validated against the real crate by Kani harness dep_div_rem_contract)
pub trait IntegerShim: Sized {
    spec fn iv(&self) -> int;
    fn div_rem(&self, other: &Self) -> (r: (Self, Self))
        requires other.iv() == 64, self.iv() >= 0,   // narrowed likewise (dep_div_rem_contract)
        ensures r.0.iv() == self.iv() / other.iv(), r.1.iv() == self.iv() % other.iv();
}
impl IntegerShim for usize {
    open spec fn iv(&self) -> int { *self as int }
    fn div_rem(&self, other: &usize) -> (r: (usize, usize))
    { (*self / *other, *self % *other) }
}

// ---------------- spec layer ----------------
pub open spec fn bit(b: u64, i: u64) -> bool { (b >> i) & 1 == 1 }

//@ extract item packages/infinity_pool/src/opaque/vacancy_map.rs type BitBlock
//@ end
//@ extract item packages/infinity_pool/src/opaque/vacancy_map.rs const BITS_PER_BLOCK
//@ end
//@ extract item packages/infinity_pool/src/opaque/vacancy_map.rs struct VacancyMap
//@ end
//@ extract item packages/infinity_pool/src/opaque/vacancy_map.rs struct VacancyMapSlice
//@ end

impl VacancyMap {
    pub closed spec fn wf(&self) -> bool {
        self.blocks.len() * 64 >= self.len_bits && self.blocks.len() * 64 < self.len_bits + 64
    }
    pub closed spec fn at(&self, i: int) -> bool {
        bit(self.blocks[i / 64], (i % 64) as u64)
    }
    pub closed spec fn spec_len(&self) -> int { self.len_bits as int }
    pub closed spec fn stale(&self, v: bool) -> bool {
        forall|i: int| self.len_bits <= i < self.blocks.len() * 64 ==> #[trigger] self.at(i) == v
    }
}

//@ extract fn packages/infinity_pool/src/opaque/vacancy_map.rs get_bit
//@ ret r
//@ spec
    requires bit_index < 64,
    ensures r == bit(block, bit_index as u64),
//@ before "(block & (1 << bit_index)) != 0"
    proof { assert(((block & (1u64 << (bit_index as u64))) != 0) == ((block >> (bit_index as u64)) & 1 == 1)) by (bit_vector) requires bit_index < 64; }
//@ end

//@ extract fn packages/infinity_pool/src/opaque/vacancy_map.rs set_bit
//@ spec
    requires bit_index < 64,
    ensures forall|j: u64| 0 <= j < 64 ==> #[trigger] bit(*final(block), j) == (bit(*old(block), j) || j == bit_index),
//@ before "*block |= 1 << bit_index;"
    proof { let b = *block; let k = bit_index as u64;
        assert(forall|j: u64| 0 <= j < 64 ==> #[trigger] bit(b | (1u64 << k), j) == (bit(b, j) || j == k)) by (bit_vector) requires k < 64; }
//@ end

//@ extract fn packages/infinity_pool/src/opaque/vacancy_map.rs clear_bit
//@ spec
    requires bit_index < 64,
    ensures forall|j: u64| 0 <= j < 64 ==> #[trigger] bit(*final(block), j) == (bit(*old(block), j) && j != bit_index),
//@ before "*block &= !(1 << bit_index);"
    proof { let b = *block; let k = bit_index as u64;
        assert(forall|j: u64| 0 <= j < 64 ==> #[trigger] bit(b & !(1u64 << k), j) == (bit(b, j) && j != k)) by (bit_vector) requires k < 64; }
//@ end

//@ extract fn packages/infinity_pool/src/opaque/vacancy_map.rs mask_bits
//@ ret r
//@ spec
    requires start_bit_index <= end_bit_index < 64,
    ensures forall|i: u64| 0 <= i < 64 ==> #[trigger] bit(r, i) == (bit(block, i) && start_bit_index <= i <= end_bit_index),
//@ before "block & mask_start & mask_end"
    proof {
        let s = start_bit_index as u64; let e = end_bit_index as u64;
        assert(e + 1 < 64 ==> (1u64 << ((e+1) as u64)) != 0) by (bit_vector) requires e < 64;
        let mpe: u64 = if e + 1 < 64 { 1u64 << ((e+1) as u64) } else { 0 };
        assert(mask_past_end == mpe);
        let me: u64 = if mpe == 0 { u64::MAX } else { (mpe - 1) as u64 };
        assert(mask_end == me);
        let ms = mask_start;
        assert(forall|i: u64| 0 <= i < 64 ==> #[trigger] bit(block & ms & me, i) == (bit(block, i) && s <= i && i <= e)) by (bit_vector)
            requires s <= e < 64, ms == u64::MAX << s, me == (if e + 1 < 64 { sub(1u64 << ((e+1) as u64), 1) } else { u64::MAX });
    }
//@ end

impl VacancyMap {
//@ extract fn packages/infinity_pool/src/opaque/vacancy_map.rs VacancyMap::new
//@ ret r
//@ spec
    ensures r.wf(), r.spec_len() == 0, r.stale(true), r.stale(false),
//@ end

//@ extract fn packages/infinity_pool/src/opaque/vacancy_map.rs VacancyMap::len
//@ ret r
//@ spec
    ensures r == self.spec_len(),
//@ end

//@ extract fn packages/infinity_pool/src/opaque/vacancy_map.rs VacancyMap::resize
//@ spec
    requires
        old(self).wf(),
        old(self).stale(initial_value),
        // bits that are truncated away must already hold the initial value, so that they can serve
        // as "stale" bits when the map is grown again (resize never re-initialises them)
        forall|i: int| len_bits <= i < old(self).spec_len() ==> #[trigger] old(self).at(i) == initial_value,
    ensures
        final(self).wf(),
        final(self).spec_len() == len_bits,
        final(self).stale(initial_value),
        forall|i: int| 0 <= i < len_bits && i < old(self).spec_len() ==> #[trigger] final(self).at(i) == old(self).at(i),
        forall|i: int| old(self).spec_len() <= i < len_bits ==> #[trigger] final(self).at(i) == initial_value,
//@ before "if !old_len_bits.is_multiple_of(BITS_PER_BLOCK) && old_len_blocks == new_len_blocks {"
            proof {
                assert(forall|j: u64| 0 <= j < 64 ==> #[trigger] bit(u64::MAX, j)) by (bit_vector);
                assert(forall|j: u64| 0 <= j < 64 ==> !#[trigger] bit(0u64, j)) by (bit_vector);
            }
//@ before "let partial_block = unsafe {"
                let ghost pre = *self;
//@ loop 1
                    invariant
                        updated_partial_block_len_bits <= 64,
                        // NB: for an empty range with start > end (new length a multiple of 64) nothing is re-initialised
                        previous_partial_block_len_bits > updated_partial_block_len_bits ==> *partial_block == pb0,
                        previous_partial_block_len_bits <= updated_partial_block_len_bits ==>
                        forall|j: u64| 0 <= j < 64 ==> #[trigger] bit(*partial_block, j) == (if previous_partial_block_len_bits <= j && j < fresh_bit_index { initial_value } else { bit(pb0, j) }),
//@ after "let partial_block = unsafe {"
                let ghost pb0 = *partial_block;
//@ after "for fresh_bit_index in"
                proof {
                    let idx = (old_len_blocks - 1) as int;
                    assert(self.blocks@.len() == pre.blocks@.len());
                    assert(forall|k: int| 0 <= k < self.blocks@.len() && k != idx ==> #[trigger] self.blocks@[k] == pre.blocks@[k]);
                    assert(pb0 == pre.blocks@[idx]);
                    assert forall|i: int| 0 <= i < len_bits && i < old_len_bits implies #[trigger] self.at(i) == old(self).at(i) by {
                        if i / 64 == idx { let jj = (i % 64) as u64; assert(bit(self.blocks@[idx], jj) == bit(pb0, jj)); }
                    }
                    assert forall|i: int| old_len_bits <= i < self.blocks.len() * 64 implies #[trigger] self.at(i) == initial_value by {
                        assert(i / 64 == idx);
                        let jj = (i % 64) as u64;
                        assert(old(self).at(i) == initial_value);
                    }
                }
//@ after "if !old_len_bits.is_multiple_of(BITS_PER_BLOCK) && old_len_blocks == new_len_blocks {"
            proof {
                if !(old_len_bits % 64 != 0 && old_len_blocks == new_len_blocks) {
                    // no partial-block fixup ran: blocks = old blocks ++ fresh blocks; the old partial block's
                    // tail is NOT re-initialised here, it must already be `initial_value` (precondition `stale`)
                    assert(new_len_blocks > old_len_blocks || old_len_bits % 64 == 0);
                    assert forall|i: int| old_len_bits <= i < self.blocks.len() * 64 implies #[trigger] self.at(i) == initial_value by {
                        if i / 64 < old_len_blocks as int {
                            assert(old(self).at(i) == initial_value);
                        } else {
                            let jj = (i % 64) as u64;
                            assert(bit(self.blocks@[i / 64], jj) == initial_value);
                        }
                    }
                }
                assert(forall|i: int| old_len_bits <= i < self.blocks.len() * 64 ==> #[trigger] self.at(i) == initial_value);
                assert(self.wf());
                assert(self.stale(initial_value));
            }
//@ after "self.blocks.truncate(new_len_blocks);"
            proof {
                assert(self.wf());
                assert forall|i: int| len_bits <= i < self.blocks.len() * 64 implies #[trigger] self.at(i) == initial_value by {
                    assert(old(self).at(i) == initial_value);
                }
                assert(self.stale(initial_value));
            }
//@ end

//@ extract fn packages/infinity_pool/src/opaque/vacancy_map.rs VacancyMap::replace_unchecked
//@ ret r
//@ spec
    requires old(self).wf(), index < old(self).spec_len(),
    ensures final(self).wf(), final(self).spec_len() == old(self).spec_len(),
        r == old(self).at(index as int),
        final(self).blocks.len() == old(self).blocks.len(),
        forall|i: int| 0 <= i < old(self).blocks.len() * 64 ==> #[trigger] final(self).at(i) == (if i == index { value } else { old(self).at(i) }),
//@ end

//@ extract fn packages/infinity_pool/src/opaque/vacancy_map.rs VacancyMap::get
//@ rewrite "impl RangeBounds<usize>" "std::ops::RangeFrom<usize>"
//@ ret r
//@ spec
    requires self.wf(),
    ensures
        match r {
            Some(s) => s.swf() && s.map == self && s.start_bit_index == range.start && s.end_bit_index == self.spec_len(),
            None => range.start > self.spec_len(),
        },
//@ end
}

impl VacancyMapSlice<'_> {
    pub closed spec fn swf(&self) -> bool {
        self.map.wf() && self.start_bit_index <= self.end_bit_index <= self.map.len_bits
    }
    pub closed spec fn sat(&self, k: int) -> bool { self.map.at(self.start_bit_index + k) }
    pub closed spec fn slen(&self) -> int { self.end_bit_index - self.start_bit_index }

//@ extract fn packages/infinity_pool/src/opaque/vacancy_map.rs VacancyMapSlice::first_one
//@ ret r
//@ spec
    requires self.swf(),
    ensures
        match r {
            Some(k) => 0 <= k < self.slen() && self.sat(k as int) && forall|j: int| 0 <= j < k ==> !self.sat(j),
            None => forall|j: int| 0 <= j < self.slen() ==> !self.sat(j),
        },
//@ loop 1
    invariant
        self.swf(),
        self.start_bit_index <= start_bit_index <= self.end_bit_index,
        bits_remaining == self.end_bit_index - start_bit_index,
        forall|j: int| self.start_bit_index <= j < start_bit_index ==> !self.map.at(j),
    decreases bits_remaining,
//@ before "return Some(absolute_pos.wrapping_sub(self.start_bit_index));"
                proof {
                    axiom_u64_trailing_zeros(masked_block);
                    let tz = u64_trailing_zeros(masked_block) as u64;
                    assert(tz < 64);
                    assert(bit(masked_block, tz));
                    assert(forall|j: u64| 0 <= j < tz ==> !#[trigger] bit(masked_block, j));
                    assert(start_bit_index == block_index * 64 + start_index_in_block);
                    assert(one_index_in_block == tz);
                    assert(tz >= start_index_in_block && tz < end_index_in_block_exclusive) by { assert(bit(masked_block, tz)); }
                    assert(block_index * 64 + tz < self.end_bit_index);
                    assert(block_index as int * 64 <= start_bit_index as int);
                    let bm = block_index.wrapping_mul(BITS_PER_BLOCK);
                    assert(bm as int == (block_index as int * 64) % 0x1_0000_0000_0000_0000int);
                    assert(bm == block_index * 64);
                    assert(absolute_pos == block_index * 64 + tz);
                    assert(absolute_pos as int / 64 == block_index as int && absolute_pos as int % 64 == tz as int);
                    assert(self.map.at(absolute_pos as int));
                    assert forall|j: int| self.start_bit_index <= j < absolute_pos implies !self.map.at(j) by {
                        if j >= start_bit_index {
                            let jj = (j % 64) as u64;
                            assert(j / 64 == block_index as int);
                            assert(!bit(masked_block, jj));
                        }
                    }
                }
//@ before "start_bit_index = start_bit_index.wrapping_add(bits_scanned_in_this_block);"
            proof {
                assert forall|j: int| start_bit_index <= j < start_bit_index + bits_scanned_in_this_block implies !self.map.at(j) by {
                    let jj = (j % 64) as u64;
                    assert(j / 64 == block_index as int);
                    assert(!bit(masked_block, jj)) by { assert(masked_block == 0); assert(!bit(0u64, jj)) by (bit_vector); }
                }
            }
//@ end
}

// ---------------- vacancy_tracker.rs ----------------
//@ extract item packages/infinity_pool/src/opaque/vacancy_tracker.rs struct VacancyTracker
//@ end

impl VacancyTracker {
    /// Abstract view: has(i) is true iff slab i is recorded as having a vacancy; n() = number of slabs tracked.
    pub closed spec fn has(&self, i: int) -> bool { self.has_vacancy.at(i) }
    pub closed spec fn n(&self) -> int { self.has_vacancy.spec_len() }
    pub closed spec fn cache_ok(&self) -> bool {
        match self.next_vacancy {
            Some(k) => 0 <= k < self.n() && self.has(k as int) && forall|j: int| 0 <= j < k ==> !#[trigger] self.has(j),
            None => forall|j: int| 0 <= j < self.n() ==> !#[trigger] self.has(j),
        }
    }
    pub closed spec fn twf(&self) -> bool {
        &&& self.has_vacancy.wf()
        &&& self.has_vacancy.stale(true)
        &&& self.cache_ok()
    }

//@ extract fn packages/infinity_pool/src/opaque/vacancy_tracker.rs VacancyTracker::new
//@ ret r
//@ spec
    ensures r.twf(), r.n() == 0,
//@ end

//@ extract fn packages/infinity_pool/src/opaque/vacancy_tracker.rs VacancyTracker::next_vacancy
//@ ret r
//@ spec
    requires self.twf(),
    ensures
        // the cached answer is the least slab index recorded as having a vacancy
        match r {
            Some(k) => 0 <= k < self.n() && self.has(k as int) && forall|j: int| 0 <= j < k ==> !#[trigger] self.has(j),
            None => forall|j: int| 0 <= j < self.n() ==> !#[trigger] self.has(j),
        },
//@ end

//@ extract fn packages/infinity_pool/src/opaque/vacancy_tracker.rs VacancyTracker::update_slab_count
//@ spec
    requires
        old(self).twf(),
        count != old(self).n(),
        // only slabs recorded as having a vacancy (in fact: empty slabs) may be truncated away
        forall|i: int| count <= i < old(self).n() ==> #[trigger] old(self).has(i),
    ensures
        final(self).twf(),
        final(self).n() == count,
        forall|i: int| 0 <= i < count && i < old(self).n() ==> #[trigger] final(self).has(i) == old(self).has(i),
        forall|i: int| old(self).n() <= i < count ==> #[trigger] final(self).has(i),
//@ before "self.has_vacancy.resize(count, true);"
        proof {
            assert forall|i: int| count <= i < self.has_vacancy.spec_len() implies #[trigger] self.has_vacancy.at(i) == true by { assert(self.has(i)); }
        }
//@ after "self.has_vacancy.resize(count, true);"
        proof {
            assert forall|i: int| 0 <= i < count && i < old(self).n() implies #[trigger] self.has(i) == old(self).has(i) by { }
            assert forall|i: int| old(self).n() <= i < count implies #[trigger] self.has(i) by { }
        }
//@ after "if count > previous_count {"
        proof {
            match old(self).next_vacancy {
                Some(k) => {
                    assert(old(self).has(k as int));
                    assert(forall|j: int| 0 <= j < k ==> !#[trigger] old(self).has(j));
                    if k < count {
                        assert(self.has(k as int) == old(self).has(k as int));
                        assert forall|j: int| 0 <= j < k implies !#[trigger] self.has(j) by { assert(self.has(j) == old(self).has(j)); }
                    } else {
                        assert forall|j: int| 0 <= j < count implies !#[trigger] self.has(j) by { assert(self.has(j) == old(self).has(j)); }
                    }
                }
                None => {
                    assert(forall|j: int| 0 <= j < old(self).n() ==> !#[trigger] old(self).has(j));
                    if count > previous_count {
                        assert(self.has(previous_count as int));
                        assert forall|j: int| 0 <= j < previous_count implies !#[trigger] self.has(j) by { assert(self.has(j) == old(self).has(j)); }
                    } else {
                        assert forall|j: int| 0 <= j < count implies !#[trigger] self.has(j) by { assert(self.has(j) == old(self).has(j)); }
                    }
                }
            }
            assert(self.cache_ok());
        }
//@ end

//@ extract fn packages/infinity_pool/src/opaque/vacancy_tracker.rs VacancyTracker::update_slab_status
//@ rewrite-re "if let Some\(next_vacancy\) = self\.next_vacancy\s*&& slab_index == next_vacancy\s*\{" "if self.next_vacancy.is_some() && slab_index == self.next_vacancy.unwrap() {"
//@ spec
    requires
        old(self).twf(),
        slab_index < old(self).n(),
        old(self).has(slab_index as int) != has_vacancy,
    ensures
        final(self).twf(),
        final(self).n() == old(self).n(),
        forall|i: int| 0 <= i < old(self).n() ==> #[trigger] final(self).has(i) == (if i == slab_index { has_vacancy } else { old(self).has(i) }),
//@ rewrite-re "remaining_bits\.first_one\(\)\.map\(\|index_in_remaining\| \{\s*remaining_range_start\.wrapping_add\(index_in_remaining\)\s*\}\);" "match remaining_bits.first_one() { Some(index_in_remaining) => Some(remaining_range_start.wrapping_add(index_in_remaining)), None => None };"
//@ after "let slab_previously_had_vacancy ="
        proof {
            assert(self.has_vacancy.stale(true));
            assert forall|i: int| 0 <= i < old(self).n() implies #[trigger] self.has(i) == (if i == slab_index { has_vacancy } else { old(self).has(i) }) by { }
            match old(self).next_vacancy {
                Some(k) => { assert(old(self).has(k as int)); assert(forall|j: int| 0 <= j < k ==> !#[trigger] old(self).has(j)); }
                None => { assert(forall|j: int| 0 <= j < old(self).n() ==> !#[trigger] old(self).has(j)); }
            }
        }
//@ before "self.next_vacancy = None;"
                    proof {
                        assert(remaining_range_start as int > self.n());
                    }
//@ after "self.next_vacancy = remaining_bits.first_one()"
                proof {
                    match self.next_vacancy {
                        Some(p) => {
                            let k = (p - remaining_range_start) as int;
                            assert(remaining_bits.sat(k));
                            assert(self.has(p as int));
                            assert forall|j: int| 0 <= j < p implies !#[trigger] self.has(j) by {
                                if j > slab_index { assert(!remaining_bits.sat(j - remaining_range_start)); }
                                else if j < slab_index { assert(!old(self).has(j)); }
                            }
                        }
                        None => {
                            assert forall|j: int| 0 <= j < self.n() implies !#[trigger] self.has(j) by {
                                if j > slab_index { assert(!remaining_bits.sat(j - remaining_range_start)); }
                                else if j < slab_index { assert(!old(self).has(j)); }
                            }
                        }
                    }
                    assert(self.cache_ok());
                }
//@ after "if has_vacancy {"
        proof {
            if has_vacancy {
                match old(self).next_vacancy {
                    Some(nv) => {
                        if slab_index < nv {
                            assert forall|j: int| 0 <= j < slab_index implies !#[trigger] self.has(j) by { assert(!old(self).has(j)); }
                        } else {
                            assert(self.has(nv as int) == old(self).has(nv as int));
                            assert forall|j: int| 0 <= j < nv implies !#[trigger] self.has(j) by { assert(!old(self).has(j)); }
                        }
                    }
                    None => {
                        assert forall|j: int| 0 <= j < slab_index implies !#[trigger] self.has(j) by { assert(!old(self).has(j)); }
                    }
                }
            } else {
                match old(self).next_vacancy {
                    Some(nv) => {
                        if slab_index != nv {
                            assert(self.has(nv as int) == old(self).has(nv as int));
                            assert forall|j: int| 0 <= j < nv implies !#[trigger] self.has(j) by { assert(!old(self).has(j)); }
                        }
                    }
                    None => { assert(old(self).has(slab_index as int)); }
                }
            }
            assert(self.cache_ok());
        }
//@ end
}

} // verus!
fn main() {}
