// Lemma U1.2: from the layout invariant established by SlabLayout::new (Kani harness slab_layout_new_contract)
// the object ranges of different slots are pairwise disjoint, disjoint from every occupancy tag, aligned,
// and inside the slab's block. Pure arithmetic over the contract; no code is extracted here.
use vstd::prelude::*;
use vstd::arithmetic::div_mod::*;
verus! {

pub struct LayoutFacts {
    pub size: int,      // object size
    pub align: int,     // object alignment
    pub meta: int,      // size_of::<SlotMeta>()
    pub meta_align: int,
    pub stride: int,    // slot_layout.size()
    pub slot_align: int,
    pub off: int,       // slot_to_object_offset
    pub capacity: int,
    pub array_size: int,
}

/// Exactly the predicate `layout_wf` of units/pool/kani/slab_layout.append.rs.
pub open spec fn layout_wf(l: LayoutFacts) -> bool {
    &&& l.size > 0 && l.align > 0 && l.meta_align > 0 && l.slot_align > 0 && l.capacity > 0 && l.meta >= 0
    &&& l.off >= l.meta
    &&& l.off % l.align == 0
    &&& l.off + l.size <= l.stride
    &&& l.stride % l.slot_align == 0
    &&& l.slot_align % l.align == 0
    &&& l.slot_align % l.meta_align == 0
    &&& l.array_size == l.stride * l.capacity
}

pub open spec fn obj_start(l: LayoutFacts, base: int, i: int) -> int { base + i * l.stride + l.off }
pub open spec fn tag_start(l: LayoutFacts, base: int, i: int) -> int { base + i * l.stride }

proof fn lemma_mul_le(a: int, b: int, s: int)
    requires a < b, s >= 0,
    ensures (a + 1) * s <= b * s,
{
    assert((a + 1) * s <= b * s) by (nonlinear_arith) requires a + 1 <= b, s >= 0;
}

proof fn lemma_mod_mul(i: int, s: int, a: int)
    requires a > 0, s % a == 0,
    ensures (i * s) % a == 0,
{
    let k = s / a;
    lemma_fundamental_div_mod(s, a);
    assert(s == a * k);
    assert(i * s == (i * k) * a) by (nonlinear_arith) requires s == a * k;
    lemma_mod_multiples_basic(i * k, a);
}

proof fn lemma_mod_trans(x: int, a: int, b: int)
    requires a > 0, b > 0, x % a == 0, a % b == 0,
    ensures x % b == 0,
{
    let k1 = x / a;
    let k2 = a / b;
    lemma_fundamental_div_mod(x, a);
    lemma_fundamental_div_mod(a, b);
    assert(x == (k1 * k2) * b) by (nonlinear_arith) requires x == a * k1, a == b * k2;
    lemma_mod_multiples_basic(k1 * k2, b);
}

proof fn lemma_mod_add(x: int, y: int, a: int)
    requires a > 0, x % a == 0, y % a == 0,
    ensures (x + y) % a == 0,
{
    lemma_add_mod_noop(x, y, a);
    lemma_small_mod(0, a as nat);
}

/// Object ranges of two different slots do not overlap.
pub proof fn lemma_objects_disjoint(l: LayoutFacts, base: int, i: int, j: int)
    requires layout_wf(l), 0 <= i < j < l.capacity,
    ensures obj_start(l, base, i) + l.size <= obj_start(l, base, j),
{
    lemma_mul_le(i, j, l.stride);
    assert((i + 1) * l.stride == i * l.stride + l.stride) by (nonlinear_arith);
}

/// An object never overlaps an occupancy tag (its own or another slot's).
pub proof fn lemma_object_tag_disjoint(l: LayoutFacts, base: int, i: int, j: int)
    requires layout_wf(l), 0 <= i < l.capacity, 0 <= j < l.capacity,
    ensures
        obj_start(l, base, i) + l.size <= tag_start(l, base, j) || tag_start(l, base, j) + l.meta <= obj_start(l, base, i),
{
    if j > i {
        lemma_mul_le(i, j, l.stride);
        assert((i + 1) * l.stride == i * l.stride + l.stride) by (nonlinear_arith);
    } else if j < i {
        lemma_mul_le(j, i, l.stride);
        assert((j + 1) * l.stride == j * l.stride + l.stride) by (nonlinear_arith);
    }
}

/// Every object lies inside the slab's block [base, base + array_size).
pub proof fn lemma_object_in_block(l: LayoutFacts, base: int, i: int)
    requires layout_wf(l), 0 <= i < l.capacity,
    ensures base <= tag_start(l, base, i), obj_start(l, base, i) + l.size <= base + l.array_size,
{
    lemma_mul_le(i, l.capacity, l.stride);
    assert((i + 1) * l.stride == i * l.stride + l.stride) by (nonlinear_arith);
    assert(0 <= i * l.stride) by (nonlinear_arith) requires i >= 0, l.stride >= 0;
}

/// If the block is aligned to the slot alignment (allocator contract), every object is aligned for its type and
/// every tag for SlotMeta.
pub proof fn lemma_aligned(l: LayoutFacts, base: int, i: int)
    requires layout_wf(l), 0 <= i < l.capacity, base % l.slot_align == 0,
    ensures obj_start(l, base, i) % l.align == 0, tag_start(l, base, i) % l.meta_align == 0,
{
    lemma_mod_mul(i, l.stride, l.slot_align);
    lemma_mod_add(base, i * l.stride, l.slot_align);
    lemma_mod_trans(base + i * l.stride, l.slot_align, l.align);
    lemma_mod_trans(base + i * l.stride, l.slot_align, l.meta_align);
    lemma_mod_add(base + i * l.stride, l.off, l.align);
}

/// Address stability: the address of slot i's object is a function of (base, i) only - so any operation whose
/// frame keeps `base` and the layout (every Slab/RawOpaquePool contract does) keeps every live object's address.
pub proof fn lemma_address_function(l: LayoutFacts, base: int, i: int, j: int)
    requires layout_wf(l), 0 <= i < l.capacity, 0 <= j < l.capacity, obj_start(l, base, i) == obj_start(l, base, j),
    ensures i == j,
{
    if i < j { lemma_objects_disjoint(l, base, i, j); }
    if j < i { lemma_objects_disjoint(l, base, j, i); }
}

} // verus!
fn main() {}
