//! Native search for a failing input of the real cpulist::emit / parse: every subset of the 6 ids next to 0 and of
//! the 6 ids next to u32::MAX (and mixes of both), checked for panics and for parse(emit(S)) == S.
use std::panic::catch_unwind;

fn main() {
    let lows: [u32; 5] = [0, 1, 2, 3, 5];
    let highs: [u32; 6] = [u32::MAX - 5, u32::MAX - 4, u32::MAX - 3, u32::MAX - 2, u32::MAX - 1, u32::MAX];
    let universe: Vec<u32> = lows.iter().chain(highs.iter()).copied().collect();
    let mut failures = 0;
    let mut runs = 0u32;
    std::panic::set_hook(Box::new(|_| {}));
    for mask in 0u32..(1 << universe.len()) {
        let set: Vec<u32> = universe.iter().enumerate().filter(|(i, _)| mask & (1 << i) != 0).map(|(_, v)| *v).collect();
        runs += 1;
        let s2 = set.clone();
        let emitted = catch_unwind(move || cpulist::emit(s2));
        match emitted {
            Err(_) => {
                failures += 1;
                println!("FAILING-INPUT emit({set:?}) panicked");
            }
            Ok(text) => {
                let back = catch_unwind(|| cpulist::parse(&text));
                match back {
                    Ok(Ok(v)) if v == set => {}
                    other => {
                        failures += 1;
                        println!("FAILING-INPUT emit({set:?}) = {text:?} parses back as {:?}", other.map(|r| r.ok()));
                    }
                }
            }
        }
        if failures >= 5 {
            break;
        }
    }
    println!("runs={runs} failures={failures}");
}
