// Verus unit: arithmetic regions of cpulist::emit (C11: the id-list codec at the top of the u32 range).
// What precedes a region (unique + sorted, the fold driver of itertools) is an explicit UNCHECKED precondition.
use vstd::prelude::*;
use std::num::NonZero;
verus! {

type Item = u32;

/// itertools::FoldWhile (assumed: same shape and meaning: Continue = keep folding, Done = stop with this value)
pub enum FoldWhile<T> { Continue(T), Done(T) }

pub assume_specification[ NonZero::<u32>::checked_add ](x: NonZero<u32>, y: u32) -> (r: Option<NonZero<u32>>)
    ensures
        x@ + y <= u32::MAX ==> r.is_some() && r.unwrap()@ == x@ + y,
        x@ + y > u32::MAX ==> r.is_none();

/// new_zealand::nz!(1) (assumed: the NonZero value 1)
#[verifier::external_body]
fn nz1() -> (r: NonZero<u32>) ensures r@ == 1 { NonZero::new(1).unwrap() }

// ---- region A: the fold_while closure body, parameters (acc, p) ----
// Precondition = what sorted + unique input gives: the next item is larger than everything in the current group.
// `len < u32::MAX` is a stated domain restriction: a single run of 2^32-1 ids (16 GiB of input) would overflow the
// NonZero<u32> length; the API cannot realistically be handed that.
//@ extract block packages/cpulist/src/emit.rs emit from "if let Some((start, len)) = acc {"
//@ wrap
fn emit_fold_step(acc: Option<(Item, NonZero<Item>)>, p: &Item) -> (r: FoldWhile<Option<(Item, NonZero<Item>)>>)
    requires
        acc matches Some((start, len)) ==> start + len@ - 1 < *p && len@ < u32::MAX,
    ensures
        // never panics (all `expect`s are proved to hold), and groups exactly the consecutive run
        match acc {
            None => r matches FoldWhile::Continue(Some((s, l))) && s == *p && l@ == 1,
            Some((start, len)) => if start + len@ == *p {
                    r matches FoldWhile::Continue(Some((s, l))) && s == start && l@ == len@ + 1
                } else {
                    r matches FoldWhile::Done(Some((s, l))) && s == start && l@ == len@
                },
        },
//@ rewrite "nz!(1)" "nz1()"
//@ end

// ---- region B1: `let second_processor_id = ...;` (len == 2 branch) ----
// Precondition: the group (start, len) is a run of ids inside u32, i.e. start + len - 1 <= u32::MAX.
//@ extract block packages/cpulist/src/emit.rs emit from "let second_processor_id = start.checked_add(1).expect("
//@ wrap
fn emit_second(start: Item, len: Item) -> (r: Item)
    requires len == 2, start + len - 1 <= u32::MAX,
    ensures r == start + 1,
//@ epilogue
    second_processor_id
//@ end

// ---- region B2: `let last_processor_id = ...;` (len >= 3 branch) ----
//@ extract block packages/cpulist/src/emit.rs emit from "let last_processor_id = start"
//@ wrap
fn emit_last(start: Item, len: Item) -> (r: Item)
    requires len >= 3, start + len - 1 <= u32::MAX,   // includes runs that END AT u32::MAX
    ensures r == start + len - 1,
//@ epilogue
    last_processor_id
//@ end

// ---- lemma: a range "a-b" emitted for a run (start, len >= 3) parses back to exactly that run ----
// parse_range("a-b") yields {a, a+1, .., b} (stride 1); with B2's contract b = start + len - 1, so the ids are
// start .. start+len-1: the codec is exact on runs, including the run ending at u32::MAX.
pub proof fn lemma_range_roundtrip(start: u32, len: u32, last: u32)
    requires len >= 3, start + len - 1 <= u32::MAX, last == start + len - 1,
    ensures
        start <= last,   // parse_range's "start must be <= end" check passes
        forall|id: int| (start <= id <= last) <==> (0 <= #[trigger] offset_in_run(id, start) < len),
{
}
pub open spec fn offset_in_run(id: int, start: u32) -> int { id - start }

} // verus!
fn main() {}
