
// ===== folo-verif overlay (add-only; compiled only under `cargo kani`) =====
#[cfg(kani)]
mod verif_kani {
    use super::*;
    use crate::allocator::verif_kani::{any_counters, any_layout, Spy};
    use crate::Allocator;
    use std::alloc::GlobalAlloc;

    /// thread_deltas = (now - start) component-wise whenever the counters did not go backwards.
    #[kani::proof]
    fn thread_deltas_contract() {
        let (_c, b, n) = any_counters();
        let sb: u64 = kani::any();
        let sn: u64 = kani::any();
        kani::assume(sb <= b && sn <= n);
        let (db, dn) = thread_deltas(sb, sn);
        assert!(db == b - sb && dn == n - sn, "C18.thread_span_is_end_minus_start");
    }

    /// A thread span around k <= 2 tracked calls reports exactly (sum of requested sizes, number of calls) into the
    /// operation's metrics; frees add nothing.
    #[kani::proof]
    #[kani::unwind(4)]
    fn thread_span_reports_exact_totals() {
        let a = Allocator::new(Spy::new(kani::any()));
        let (_c, b0, n0) = any_counters();
        kani::assume(b0 < u64::MAX / 4 && n0 < u64::MAX / 4);
        let metrics = Arc::new(Mutex::new(OperationMetrics::default()));
        let iters: u64 = kani::any();
        let span = ThreadSpan { metrics: Arc::clone(&metrics), start_bytes: b0, start_count: n0, iterations: Some(iters), _single_threaded: PhantomData };
        let l1 = any_layout();
        let l2 = any_layout();
        let new_size: usize = kani::any();
        kani::assume(l1.size() < (1usize << 60) && new_size < (1usize << 60));
        let two: bool = kani::any();
        unsafe {
            let _ = a.alloc(l1);
            if two {
                let _ = a.realloc(8 as *mut u8, l2, new_size);
            }
            a.dealloc(8 as *mut u8, l2);
        }
        drop(span);
        let m = metrics.lock().unwrap();
        let expect_bytes = l1.size() as u64 + if two { new_size as u64 } else { 0 };
        let expect_count = if two { 2 } else { 1 };
        assert!(m.total_bytes_allocated() == expect_bytes, "C18.thread_span_reports_sum_of_requested_sizes");
        assert!(m.total_allocations_count() == expect_count, "C18.thread_span_reports_number_of_calls");
        assert!(m.total_iterations() == iters, "C18.thread_span_reports_iterations");
    }
}
