
// ===== folo-verif overlay (add-only; compiled only under `cargo kani`) =====
#[cfg(kani)]
mod verif_kani {
    use super::*;

    fn any_metrics() -> OperationMetrics {
        let mut m = OperationMetrics::default();
        m.total_iterations = kani::any();
        m.total_bytes = kani::any();
        m.total_count = kani::any();
        m
    }

    /// Reports are the sums of their spans: add_span adds each component exactly (no wrap: overflow panics).
    #[kani::proof]
    fn add_span_contract() {
        let mut m = any_metrics();
        let (i0, b0, c0) = (m.total_iterations, m.total_bytes, m.total_count);
        let (i, b, c): (u64, u64, u64) = (kani::any(), kani::any(), kani::any());
        kani::assume(i0.checked_add(i).is_some() && b0.checked_add(b).is_some() && c0.checked_add(c).is_some());
        m.add_span(i, b, c);
        assert!(m.total_iterations() == i0 + i && m.total_bytes_allocated() == b0 + b && m.total_allocations_count() == c0 + c, "C18.report_is_sum_of_spans");
        assert!(m.is_empty() == (i0 + i == 0), "C18.report_is_empty");
    }

    #[kani::proof]
    fn merge_contract() {
        let mut m = any_metrics();
        let o = any_metrics();
        let (i0, b0, c0) = (m.total_iterations, m.total_bytes, m.total_count);
        kani::assume(i0.checked_add(o.total_iterations).is_some() && b0.checked_add(o.total_bytes).is_some() && c0.checked_add(o.total_count).is_some());
        m.merge(&o);
        assert!(m.total_iterations() == i0 + o.total_iterations && m.total_bytes_allocated() == b0 + o.total_bytes && m.total_allocations_count() == c0 + o.total_count, "C18.merge_is_sum");
    }
}
