
// ===== folo-verif overlay (add-only; compiled only under `cargo kani`) =====
#[cfg(kani)]
pub(crate) mod verif_kani {
    use super::*;

    /// Recording inner allocator: remembers exactly what it was asked and returns a harness-chosen pointer.
    pub(crate) struct Spy {
        pub alloc_calls: Cell<u32>,
        pub zeroed_calls: Cell<u32>,
        pub realloc_calls: Cell<u32>,
        pub dealloc_calls: Cell<u32>,
        pub last_size: Cell<usize>,
        pub last_align: Cell<usize>,
        pub last_ptr: Cell<usize>,
        pub last_new_size: Cell<usize>,
        pub ret: Cell<usize>,
    }
    // SAFETY (harness): single-threaded verification.
    unsafe impl Sync for Spy {}
    impl Spy {
        pub(crate) fn new(ret: usize) -> Self {
            Spy { alloc_calls: Cell::new(0), zeroed_calls: Cell::new(0), realloc_calls: Cell::new(0), dealloc_calls: Cell::new(0), last_size: Cell::new(0), last_align: Cell::new(0), last_ptr: Cell::new(0), last_new_size: Cell::new(0), ret: Cell::new(ret) }
        }
        fn total_calls(&self) -> u32 {
            self.alloc_calls.get() + self.zeroed_calls.get() + self.realloc_calls.get() + self.dealloc_calls.get()
        }
    }
    unsafe impl GlobalAlloc for Spy {
        unsafe fn alloc(&self, l: Layout) -> *mut u8 {
            self.alloc_calls.set(self.alloc_calls.get() + 1);
            self.last_size.set(l.size());
            self.last_align.set(l.align());
            self.ret.get() as *mut u8
        }
        unsafe fn dealloc(&self, p: *mut u8, l: Layout) {
            self.dealloc_calls.set(self.dealloc_calls.get() + 1);
            self.last_ptr.set(p as usize);
            self.last_size.set(l.size());
            self.last_align.set(l.align());
        }
        unsafe fn alloc_zeroed(&self, l: Layout) -> *mut u8 {
            self.zeroed_calls.set(self.zeroed_calls.get() + 1);
            self.last_size.set(l.size());
            self.last_align.set(l.align());
            self.ret.get() as *mut u8
        }
        unsafe fn realloc(&self, p: *mut u8, l: Layout, n: usize) -> *mut u8 {
            self.realloc_calls.set(self.realloc_calls.get() + 1);
            self.last_ptr.set(p as usize);
            self.last_size.set(l.size());
            self.last_align.set(l.align());
            self.last_new_size.set(n);
            self.ret.get() as *mut u8
        }
    }

    pub(crate) fn any_layout() -> Layout {
        let size: usize = kani::any();
        let al: u8 = kani::any();
        kani::assume(al < 30);
        let align = 1usize << al;
        kani::assume(size <= isize::MAX as usize - (align - 1));
        Layout::from_size_align(size, align).unwrap()
    }

    /// This thread's counters in an arbitrary pre-state.
    pub(crate) fn any_counters() -> (&'static PerThreadCounters, u64, u64) {
        let c = get_or_init_thread_counters();
        c.bytes.store(kani::any(), atomic::Ordering::Relaxed);
        c.count.store(kani::any(), atomic::Ordering::Relaxed);
        (c, c.bytes(), c.count())
    }

    #[kani::proof]
    fn alloc_contract() {
        let a = Allocator::new(Spy::new(kani::any()));
        let (c, b0, n0) = any_counters();
        let l = any_layout();
        let p = unsafe { a.alloc(l) };
        assert!(p as usize == a.inner.ret.get(), "C18.alloc_returns_inner_result");
        assert!(a.inner.alloc_calls.get() == 1 && a.inner.total_calls() == 1, "C18.alloc_forwarded_exactly_once");
        assert!(a.inner.last_size.get() == l.size() && a.inner.last_align.get() == l.align(), "C18.alloc_forwards_layout_unchanged");
        assert!(c.bytes() == b0.wrapping_add(l.size() as u64), "C18.alloc_counts_requested_size");
        assert!(c.count() == n0.wrapping_add(1), "C18.alloc_counts_one_call");
    }

    /// The very FIRST tracked call on a thread (its counters do not exist yet) is counted like any other.
    #[kani::proof]
    #[kani::unwind(4)]
    fn first_alloc_on_fresh_thread_is_counted() {
        let a = Allocator::new(Spy::new(kani::any()));
        let which: u8 = kani::any();
        kani::assume(which < 3);
        let l = any_layout();
        let new_size: usize = kani::any();
        // no get_or_init_thread_counters() before this point: the thread-local counters are uninitialised
        let expect = match which {
            0 => {
                let _ = unsafe { a.alloc(l) };
                l.size()
            }
            1 => {
                let _ = unsafe { a.alloc_zeroed(l) };
                l.size()
            }
            _ => {
                let _ = unsafe { a.realloc(8 as *mut u8, l, new_size) };
                new_size
            }
        };
        let c = get_or_init_thread_counters();
        assert!(c.count() == 1, "C18.first_call_on_a_thread_counts_one_call");
        assert!(c.bytes() == expect as u64, "C18.first_call_on_a_thread_counts_its_size");
        assert!(a.inner.total_calls() == 1, "C18.first_call_forwarded_exactly_once");
        // and the registry now holds exactly this thread's counters, so a process span sees the call too
        let t = allocation_totals();
        assert!(t.count == 1 && t.bytes == expect as u64, "C18.process_totals_include_first_call_of_a_new_thread");
    }

    #[kani::proof]
    fn alloc_zeroed_contract() {
        let a = Allocator::new(Spy::new(kani::any()));
        let (c, b0, n0) = any_counters();
        let l = any_layout();
        let p = unsafe { a.alloc_zeroed(l) };
        assert!(p as usize == a.inner.ret.get(), "C18.alloc_zeroed_returns_inner_result");
        assert!(a.inner.zeroed_calls.get() == 1 && a.inner.total_calls() == 1, "C18.alloc_zeroed_forwarded_exactly_once");
        assert!(a.inner.last_size.get() == l.size() && a.inner.last_align.get() == l.align(), "C18.alloc_zeroed_forwards_layout_unchanged");
        assert!(c.bytes() == b0.wrapping_add(l.size() as u64), "C18.alloc_zeroed_counts_requested_size");
        assert!(c.count() == n0.wrapping_add(1), "C18.alloc_zeroed_counts_one_call");
    }

    #[kani::proof]
    fn realloc_contract() {
        let a = Allocator::new(Spy::new(kani::any()));
        let (c, b0, n0) = any_counters();
        let l = any_layout();
        let ptr: usize = kani::any();
        let new_size: usize = kani::any();
        let p = unsafe { a.realloc(ptr as *mut u8, l, new_size) };
        assert!(p as usize == a.inner.ret.get(), "C18.realloc_returns_inner_result");
        assert!(a.inner.realloc_calls.get() == 1 && a.inner.total_calls() == 1, "C18.realloc_forwarded_exactly_once");
        assert!(a.inner.last_ptr.get() == ptr && a.inner.last_size.get() == l.size() && a.inner.last_align.get() == l.align() && a.inner.last_new_size.get() == new_size, "C18.realloc_forwards_arguments_unchanged");
        assert!(c.bytes() == b0.wrapping_add(new_size as u64), "C18.realloc_counts_full_new_size");
        assert!(c.count() == n0.wrapping_add(1), "C18.realloc_counts_one_call");
    }

    #[kani::proof]
    fn dealloc_contract() {
        let a = Allocator::new(Spy::new(kani::any()));
        let (c, b0, n0) = any_counters();
        let l = any_layout();
        let ptr: usize = kani::any();
        unsafe { a.dealloc(ptr as *mut u8, l) };
        assert!(a.inner.dealloc_calls.get() == 1 && a.inner.total_calls() == 1, "C18.dealloc_forwarded_exactly_once");
        assert!(a.inner.last_ptr.get() == ptr && a.inner.last_size.get() == l.size() && a.inner.last_align.get() == l.align(), "C18.dealloc_forwards_arguments_unchanged");
        assert!(c.bytes() == b0 && c.count() == n0, "C18.dealloc_counts_nothing");
    }

    /// allocation_totals() is the (wrapping) sum over every registered thread's counters (this thread + one other).
    #[kani::proof]
    #[kani::unwind(4)]
    fn allocation_totals_contract() {
        let (_c, b0, n0) = any_counters();
        let other = Arc::new(PerThreadCounters::new());
        other.bytes.store(kani::any(), atomic::Ordering::Relaxed);
        other.count.store(kani::any(), atomic::Ordering::Relaxed);
        let (b1, n1) = (other.bytes(), other.count());
        REGISTRY.lock().unwrap().push(other);
        let t = allocation_totals();
        assert!(t.bytes == b0.wrapping_add(b1) && t.count == n0.wrapping_add(n1), "C18.process_totals_are_sum_over_threads");
    }
}
