
// ===== folo-verif overlay (add-only; compiled only under `cargo kani`) =====
#[cfg(kani)]
mod verif_kani {
    use super::*;
    use crate::allocator::verif_kani::any_counters;

    /// process_deltas = (totals now - start) whenever the totals did not go backwards (registry: this thread).
    #[kani::proof]
    #[kani::unwind(4)]
    fn process_deltas_contract() {
        let (_c, b, n) = any_counters();
        let sb: u64 = kani::any();
        let sn: u64 = kani::any();
        kani::assume(sb <= b && sn <= n);
        let (db, dn) = process_deltas(sb, sn);
        assert!(db == b - sb && dn == n - sn, "C18.process_span_is_end_minus_start");
    }
}
