
// ===== folo-verif overlay (add-only; compiled only under `cargo kani`) =====
#[cfg(kani)]
mod verif_kani {
    use super::*;
    use crate::verif_kani_pool::{any_wf_pool, pool_wf};

    /// The typed pinned pool is a thin forwarder over RawOpaquePool: its operations keep the inner invariant,
    /// the value read back (by reference and by remove_unpin) is the value stored, len/capacity/is_empty forward.
    #[kani::proof]
    #[kani::unwind(6)]
    fn pinned_pool_forwards_1slab() {
        let inner = any_wf_pool::<u32>(1, DropPolicy::MayDropContents);
        let mut pool: RawPinnedPool<u32> = RawPinnedPool { inner, _marker: PhantomData };
        let len0 = pool.len();
        let v: u32 = kani::any();
        let h = pool.insert(v);
        assert!(pool.len() == len0 + 1 && !pool.is_empty() && pool.capacity() >= pool.len(), "C02.pinned_pool_accounting");
        assert!(pool_wf(&pool.inner), "C01.pinned_pool_keeps_inner_invariant");
        assert!(unsafe { *h.ptr().as_ptr() } == v && h.ptr().as_ptr() as usize % 4 == 0, "C01.pinned_pool_value_readback_and_alignment");
        let shared = h.into_shared();
        let back = unsafe { pool.remove_unpin(shared) };
        assert!(back == v, "C01.pinned_pool_remove_unpin_returns_stored_value");
        assert!(pool.len() == len0 && pool_wf(&pool.inner), "C02.pinned_pool_accounting_after_remove");
        core::mem::forget(pool);
    }
}
