
// ===== folo-verif overlay (add-only; compiled only under `cargo kani`) =====
#[cfg(kani)]
pub(crate) mod verif_kani {
    use super::*;

    /// `SlabLayout::wf`: the contract `SlabLayout::new` is proved to establish (harness
    /// `slab_layout_new_contract`) and the only thing `Slab` / `RawOpaquePool` harnesses assume of a layout.
    pub(crate) fn layout_wf(l: &SlabLayout) -> bool {
        let meta = Layout::new::<SlotMeta>();
        let size = l.object_layout.size();
        let align = l.object_layout.align();
        let stride = l.slot_layout.size();
        let off = l.slot_to_object_offset;
        size > 0
            && off >= meta.size()
            && off % align == 0
            && off.checked_add(size).is_some_and(|e| e <= stride)
            && stride % l.slot_layout.align() == 0
            && l.slot_layout.align() >= align
            && l.slot_layout.align() >= meta.align()
            && l.slot_layout.align() % align == 0
            && l.slot_layout.align() % meta.align() == 0
            && stride.checked_mul(l.capacity.get()) == Some(l.slot_array_layout.size())
            && l.slot_array_layout.align() == l.slot_layout.align()
    }

    /// An arbitrary well-formed layout with a harness-chosen capacity (modular step: callers are
    /// checked against `layout_wf`, not against `determine_capacity`'s 32..16384).
    pub(crate) fn wf_layout(object_layout: Layout, capacity: usize) -> SlabLayout {
        let meta_layout = Layout::new::<SlotMeta>();
        let (slot_layout, off) = meta_layout.extend(object_layout).unwrap();
        let slot_layout = slot_layout.pad_to_align();
        let l = SlabLayout {
            capacity: NonZero::new(capacity).unwrap(),
            object_layout,
            slot_layout,
            slot_to_object_offset: off,
            slot_array_layout: Layout::from_size_align(slot_layout.size() * capacity, slot_layout.align()).unwrap(),
        };
        assert!(layout_wf(&l));
        l
    }

    fn new_contract(max_size: usize, max_align_log: u8) {
        let size: usize = kani::any();
        let align_log: u8 = kani::any();
        kani::assume(align_log <= max_align_log);
        let align: usize = 1usize << align_log;
        kani::assume(size > 0 && size <= max_size);
        // Rust types always have size % align == 0; Layout itself does not require it, so we do not assume it.
        let object_layout = Layout::from_size_align(size, align).unwrap();
        let l = SlabLayout::new(object_layout);
        assert!(layout_wf(&l), "C01.layout_wf: SlabLayout::new establishes the layout invariant");
        assert!(l.object_layout() == object_layout, "C01.layout_object: object layout stored unchanged");
        assert!(l.capacity().get() >= 32, "C01.layout_min_capacity");
        // accessors return the fields
        assert!(l.slot_layout() == l.slot_layout && l.slot_to_object_offset() == l.slot_to_object_offset
            && l.slot_array_layout() == l.slot_array_layout && l.capacity() == l.capacity, "C01.layout_accessors");
        // no slot of the array reaches past the array, every slot start is aligned for SlotMeta and
        // every object start is aligned for the object (base is aligned to slot_array_layout.align())
        let idx: usize = kani::any();
        kani::assume(idx < l.capacity().get());
        let stride = l.slot_layout().size();
        let slot_start = idx * stride;
        assert!(slot_start % Layout::new::<SlotMeta>().align() == 0, "C01.layout_slot_aligned");
        assert!((slot_start + l.slot_to_object_offset()) % align == 0, "C01.layout_object_aligned");
        assert!(slot_start + l.slot_to_object_offset() + size <= l.slot_array_layout().size(), "C01.layout_in_array");
        assert!(slot_start + Layout::new::<SlotMeta>().size() <= slot_start + l.slot_to_object_offset(), "C01.layout_meta_before_object");
        kani::cover!(size == 1 && align == 1);
        kani::cover!(size > 1_048_576);
        kani::cover!(align == 4096);
    }

    /// Full domain of the property statement: size 1..=2^40 (> 1 MiB), alignment 1..=4096.
    #[kani::proof]
    fn slab_layout_new_contract() {
        new_contract(1usize << 40, 12);
    }

    /// Thorough: alignment up to 2^29, size up to 2^46.
    #[kani::proof]
    fn slab_layout_new_contract_wide() {
        new_contract(1usize << 46, 29);
    }

    /// determine_capacity against its stated policy, for every slot size.
    #[kani::proof]
    fn determine_capacity_contract() {
        let s: usize = kani::any();
        kani::assume(s > 0);
        let c = determine_capacity(NonZero::new(s).unwrap()).get();
        let min_real = core::cmp::max(16_384 / s, 32);
        let desired = if s.checked_mul(128).is_some_and(|b| b <= 1_048_576) { 128 } else { 1_048_576 / s };
        assert!(c == core::cmp::max(desired, min_real), "C01.capacity_policy");
        assert!(c >= 32 && c <= 16_384, "C01.capacity_range");
    }
}
