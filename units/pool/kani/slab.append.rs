
// ===== folo-verif overlay (add-only; compiled only under `cargo kani`) =====
#[cfg(kani)]
pub(crate) mod verif_kani_slab {
    use super::*;
    pub(crate) use crate::opaque::slab_layout::verif_kani::{layout_wf, wf_layout};

    /// Kani's compiler aborts on the `catch_unwind` intrinsic and does not model unwinding at all; harnesses that
    /// reach `Slab::drop` replace `std::panic::catch_unwind` by a plain call (listed as an assumption).
    pub(crate) fn catch_unwind_stub<F: FnOnce() -> R + std::panic::UnwindSafe, R>(f: F) -> thread::Result<R> {
        Ok(f())
    }

    pub(crate) fn resume_unwind_stub(_payload: Box<dyn Any + Send>) -> ! {
        panic!("resume_unwind (stub): a destructor panicked")
    }
    pub(crate) fn panicking_stub() -> bool {
        false
    }

    // ---------------------------------------------------------------- payload types
    pub(crate) trait Payload: Copy + PartialEq + kani::Arbitrary + 'static {}
    impl Payload for u8 {}
    impl Payload for u32 {}
    #[derive(Clone, Copy, PartialEq, Eq)]
    #[repr(align(16))]
    pub(crate) struct A16(pub [u8; 16]);
    impl kani::Arbitrary for A16 {
        fn any() -> Self {
            A16(kani::any())
        }
    }
    impl Payload for A16 {}

    // ---------------------------------------------------------------- representation invariant
    pub(crate) fn occupied(slab: &Slab, j: usize) -> bool {
        // SAFETY (harness): j < capacity
        matches!(unsafe { slab.slot_ptr_unchecked(j).as_ref() }, SlotMeta::Occupied { .. })
    }

    pub(crate) fn base_of(s: &Slab) -> usize {
        s.first_slot_ptr.as_ptr() as usize
    }

    /// `Slab::wf` for a slab of capacity CAP:
    ///  * the layout is well-formed and has capacity CAP,
    ///  * the free list starting at `next_free_slot_index` is duplicate-free, visits exactly the
    ///    Vacant slots and ends at `capacity`,
    ///  * `count` is the number of Occupied slots,
    ///  * every Occupied slot's dropper points at that slot's object.
    pub(crate) fn slab_wf<const CAP: usize>(slab: &Slab) -> bool {
        let cap = slab.layout.capacity().get();
        if cap != CAP || !layout_wf(&slab.layout) {
            return false;
        }
        let mut seen = [false; CAP];
        let mut cur = slab.next_free_slot_index;
        let mut n = 0usize;
        let mut i = 0;
        while i <= CAP {
            if cur == cap {
                break;
            }
            if cur > cap {
                return false;
            }
            if seen[cur] {
                return false;
            }
            seen[cur] = true;
            n += 1;
            // SAFETY (harness): cur < capacity
            let meta = unsafe { slab.slot_ptr_unchecked(cur).as_ref() };
            match meta {
                SlotMeta::Vacant { next_free_slot_index } => cur = *next_free_slot_index,
                SlotMeta::Occupied { .. } => return false,
            }
            i += 1;
        }
        if cur != cap {
            return false;
        }
        let mut occupied_n = 0usize;
        let mut j = 0;
        while j < CAP {
            if occupied(slab, j) {
                occupied_n += 1;
                if seen[j] {
                    return false;
                }
            } else if !seen[j] {
                return false;
            }
            j += 1;
        }
        occupied_n == slab.count && n + occupied_n == cap
    }

    /// An arbitrary slab state satisfying `slab_wf` (every such state: tags, free-list links, head, count
    /// and object bytes are all non-deterministic, then constrained by the invariant).
    pub(crate) fn any_wf_slab<const CAP: usize, T: kani::Arbitrary + 'static>(policy: DropPolicy) -> Slab {
        let layout = wf_layout(Layout::new::<T>(), CAP);
        let mut slab = Slab::new(layout, policy);
        let mut j = 0;
        while j < CAP {
            let occ: bool = kani::any();
            if occ {
                // SAFETY (harness): j < capacity
                let optr = unsafe { slab.object_ptr_unchecked::<T>(j) };
                unsafe {
                    optr.as_ptr().write(kani::any());
                }
                let slot = unsafe { slab.slot_meta_mut(j) };
                let old = mem::replace(slot, SlotMeta::Occupied { _dropper: unsafe { Dropper::new(optr) } });
                mem::forget(old);
            } else {
                let slot = unsafe { slab.slot_meta_mut(j) };
                *slot = SlotMeta::Vacant { next_free_slot_index: kani::any() };
            }
            j += 1;
        }
        slab.next_free_slot_index = kani::any();
        slab.count = kani::any();
        kani::assume(slab_wf::<CAP>(&slab));
        slab
    }

    #[derive(Clone, Copy)]
    pub(crate) struct Snap<const CAP: usize, T: Copy> {
        pub occ: [bool; CAP],
        pub vals: [Option<T>; CAP],
        pub count: usize,
        pub next_free: usize,
        pub base: usize,
        pub layout: SlabLayout,
    }

    pub(crate) fn snapshot<const CAP: usize, T: Copy + 'static>(slab: &Slab) -> Snap<CAP, T> {
        let mut s = Snap { occ: [false; CAP], vals: [None; CAP], count: slab.count, next_free: slab.next_free_slot_index, base: base_of(slab), layout: slab.layout };
        let mut j = 0;
        while j < CAP {
            s.occ[j] = occupied(slab, j);
            if s.occ[j] {
                s.vals[j] = Some(unsafe { slab.object_ptr_unchecked::<T>(j).as_ptr().read() });
            }
            j += 1;
        }
        s
    }

    /// Frame: every slot other than `except` has the same tag and the same object value; base and layout unchanged.
    pub(crate) fn frame_ok<const CAP: usize, T: Copy + PartialEq + 'static>(slab: &Slab, pre: &Snap<CAP, T>, except: usize) -> bool {
        if base_of(slab) != pre.base || slab.layout != pre.layout {
            return false;
        }
        let mut j = 0;
        while j < CAP {
            if j != except {
                if occupied(slab, j) != pre.occ[j] {
                    return false;
                }
                if pre.occ[j] && Some(unsafe { slab.object_ptr_unchecked::<T>(j).as_ptr().read() }) != pre.vals[j] {
                    return false;
                }
            }
            j += 1;
        }
        true
    }

    pub(crate) fn expected_object_addr(slab: &Slab, idx: usize) -> usize {
        base_of(slab) + idx * slab.layout.slot_layout().size() + slab.layout.slot_to_object_offset()
    }

    // ---------------------------------------------------------------- contracts
    /// Slab::new establishes the invariant: all slots vacant, free list 0,1,..,CAP-1, count 0.
    fn new_contract<const CAP: usize, T: Payload>() {
        let layout = wf_layout(Layout::new::<T>(), CAP);
        let slab = Slab::new(layout, DropPolicy::MayDropContents);
        assert!(slab_wf::<CAP>(&slab), "C01.slab_new_wf");
        assert!(slab.len() == 0 && slab.is_empty() && (CAP == 0 || !slab.is_full()), "C02.slab_new_empty");
        assert!(slab.next_free_slot_index == 0, "C01.slab_new_freelist_head");
        assert!(base_of(&slab) % layout.slot_layout().align() == 0, "C01.slab_base_aligned (allocator contract)");
        mem::forget(slab);
    }

    fn insert_contract<const CAP: usize, T: Payload>() {
        let mut slab = any_wf_slab::<CAP, T>(DropPolicy::MayDropContents);
        kani::assume(!slab.is_full());
        let pre = snapshot::<CAP, T>(&slab);
        let v: T = kani::any();
        let mut calls = 0u32;
        let mut cb_addr = 0usize;
        let mut untouched_at_cb = false;
        let slab_ptr = &raw const slab;
        let h = unsafe {
            slab.insert_with_unchecked::<T, _>(|u| {
                calls += 1;
                cb_addr = u.as_ptr() as usize;
                // C04: nothing has been modified when user code runs, so a panic here leaves the slab as it was
                let s = &*slab_ptr;
                untouched_at_cb = slab_wf::<CAP>(s) && s.count == pre.count && s.next_free_slot_index == pre.next_free && frame_ok::<CAP, T>(s, &pre, CAP);
                u.write(v);
            })
        };
        let idx = h.index();
        assert!(calls == 1, "C02.insert_closure_once");
        assert!(untouched_at_cb, "C04.insert_state_untouched_at_callback");
        assert!(idx < CAP, "C01.insert_index_in_range");
        assert!(!pre.occ[idx], "C01.insert_slot_was_vacant (exclusive: never hands out an occupied slot)");
        assert!(idx == pre.next_free, "C01.insert_takes_freelist_head");
        assert!(occupied(&slab, idx), "C02.insert_marks_occupied");
        assert!(slab.count == pre.count + 1 && slab.len() == pre.count + 1, "C02.insert_count");
        assert!(h.ptr().as_ptr() as usize == expected_object_addr(&slab, idx), "C01.insert_addr_formula");
        assert!(cb_addr == h.ptr().as_ptr() as usize, "C01.insert_init_addr_is_handle_addr");
        assert!(h.ptr().as_ptr() as usize % mem::align_of::<T>() == 0, "C01.insert_aligned");
        assert!(unsafe { *h.ptr().as_ptr() } == v, "C01.insert_value_readback");
        assert!(frame_ok::<CAP, T>(&slab, &pre, idx), "C01.insert_frame (other slots' tags and bytes, base, layout unchanged)");
        assert!(slab_wf::<CAP>(&slab), "C01.insert_wf_after");
        assert!(slab.is_full() == (pre.count + 1 == CAP) && !slab.is_empty(), "C02.insert_full_flag");
        kani::cover!(idx == CAP - 1);
        kani::cover!(slab.is_full());
        kani::cover!(pre.count == 0);
        mem::forget(slab);
    }

    fn remove_contract<const CAP: usize, T: Payload>() {
        let mut slab = any_wf_slab::<CAP, T>(DropPolicy::MayDropContents);
        let k: usize = kani::any();
        kani::assume(k < CAP && occupied(&slab, k));
        let pre = snapshot::<CAP, T>(&slab);
        let h = SlabHandle::new(k, unsafe { slab.object_ptr_unchecked::<T>(k) });
        unsafe {
            slab.remove(h);
        }
        assert!(!occupied(&slab, k), "C02.remove_marks_vacant");
        assert!(slab.count + 1 == pre.count && slab.len() + 1 == pre.count, "C02.remove_count");
        assert!(slab.next_free_slot_index == k, "C01.remove_pushes_freelist");
        assert!(frame_ok::<CAP, T>(&slab, &pre, k), "C01.remove_frame");
        assert!(slab_wf::<CAP>(&slab), "C01.remove_wf_after");
        assert!(!slab.is_full() && slab.is_empty() == (pre.count == 1), "C02.remove_flags");
        kani::cover!(pre.count == CAP);
        kani::cover!(CAP == 1 || (k == 0 && pre.occ[CAP - 1]));
        mem::forget(slab);
    }

    fn remove_unpin_contract<const CAP: usize, T: Payload + Unpin>() {
        let mut slab = any_wf_slab::<CAP, T>(DropPolicy::MayDropContents);
        let k: usize = kani::any();
        kani::assume(k < CAP && occupied(&slab, k));
        let pre = snapshot::<CAP, T>(&slab);
        let h = SlabHandle::new(k, unsafe { slab.object_ptr_unchecked::<T>(k) });
        let v = unsafe { slab.remove_unpin::<T>(h) };
        assert!(Some(v) == pre.vals[k], "C01.remove_unpin_returns_stored_value");
        assert!(!occupied(&slab, k), "C02.remove_unpin_marks_vacant");
        assert!(slab.count + 1 == pre.count, "C02.remove_unpin_count");
        assert!(slab.next_free_slot_index == k, "C01.remove_unpin_pushes_freelist");
        assert!(frame_ok::<CAP, T>(&slab, &pre, k), "C01.remove_unpin_frame");
        assert!(slab_wf::<CAP>(&slab), "C01.remove_unpin_wf_after");
        mem::forget(slab);
    }

    fn object_ptr_contract<const CAP: usize, T: Payload>() {
        let slab = any_wf_slab::<CAP, T>(DropPolicy::MayDropContents);
        let k: usize = kani::any();
        kani::assume(k < CAP);
        let p = unsafe { slab.object_ptr_unchecked::<T>(k) }.as_ptr() as usize;
        let s = unsafe { slab.slot_ptr_unchecked(k) }.as_ptr() as usize;
        assert!(s == base_of(&slab) + k * slab.layout.slot_layout().size(), "C01.slot_addr_formula");
        assert!(p == expected_object_addr(&slab, k), "C01.object_addr_formula");
        assert!(p % mem::align_of::<T>() == 0 && s % mem::align_of::<SlotMeta>() == 0, "C01.addr_aligned");
        assert!(p >= s + mem::size_of::<SlotMeta>(), "C01.object_after_tag");
        assert!(p + mem::size_of::<T>() <= base_of(&slab) + slab.layout.slot_array_layout().size(), "C01.object_inside_block");
        mem::forget(slab);
    }

    // ---------------------------------------------------------------- destructor accounting (C02, C04)
    pub(crate) static mut DROPS: u32 = 0;
    pub(crate) static mut DROPPED_IDS: u32 = 0; // bit set of dropped payload ids
    pub(crate) static mut DOUBLE_DROP: bool = false;
    pub(crate) static mut SLAB_PTR: *const Slab = ptr::null();
    pub(crate) static mut WF_AT_DROP: bool = true;
    pub(crate) static mut CHECK_AT_DROP: Option<fn() -> bool> = None;

    /// Payload whose destructor counts itself and evaluates a registered predicate (the enclosing structure's
    /// representation invariant) at the moment it runs.
    pub(crate) struct Probe(pub u8);
    impl kani::Arbitrary for Probe {
        fn any() -> Self {
            let id: u8 = kani::any();
            kani::assume(id < 32);
            Probe(id)
        }
    }
    impl Drop for Probe {
        fn drop(&mut self) {
            unsafe {
                DROPS += 1;
                if DROPPED_IDS & (1u32 << self.0) != 0 {
                    DOUBLE_DROP = true;
                }
                DROPPED_IDS |= 1u32 << self.0;
                if let Some(f) = CHECK_AT_DROP {
                    if !f() {
                        WF_AT_DROP = false;
                    }
                }
            }
        }
    }

    /// Arbitrary wf slab of Probes with pairwise distinct ids (id = slot index + id_base).
    pub(crate) fn any_wf_probe_slab<const CAP: usize>(policy: DropPolicy, id_base: u8) -> Slab {
        let slab = any_wf_slab::<CAP, Probe>(policy);
        let mut j = 0;
        while j < CAP {
            if occupied(&slab, j) {
                unsafe { slab.object_ptr_unchecked::<Probe>(j).as_ptr().write(Probe(id_base + j as u8)) };
            }
            j += 1;
        }
        slab
    }

    fn slab_wf_at_drop_2() -> bool {
        unsafe { slab_wf::<2>(&*SLAB_PTR) }
    }
    fn slab_wf_at_drop_3() -> bool {
        unsafe { slab_wf::<3>(&*SLAB_PTR) }
    }

    fn remove_drops_once<const CAP: usize>(check: fn() -> bool) {
        let mut slab = any_wf_probe_slab::<CAP>(DropPolicy::MayDropContents, 0);
        let k: usize = kani::any();
        kani::assume(k < CAP && occupied(&slab, k));
        let pre_count = slab.count;
        let h = SlabHandle::new(k, unsafe { slab.object_ptr_unchecked::<Probe>(k) });
        unsafe {
            SLAB_PTR = &raw const slab;
            CHECK_AT_DROP = Some(check);
        }
        unsafe {
            slab.remove(h);
        }
        unsafe {
            assert!(DROPS == 1, "C02.remove_runs_destructor_exactly_once");
            assert!(DROPPED_IDS == 1u32 << k, "C02.remove_drops_the_removed_object");
            assert!(WF_AT_DROP, "C04.slab_wf_when_destructor_runs");
        }
        assert!(slab.count + 1 == pre_count, "C02.remove_count");
        mem::forget(slab);
    }

    fn remove_unpin_never_drops<const CAP: usize>() {
        let mut slab = any_wf_probe_slab::<CAP>(DropPolicy::MayDropContents, 0);
        let k: usize = kani::any();
        kani::assume(k < CAP && occupied(&slab, k));
        let h = SlabHandle::new(k, unsafe { slab.object_ptr_unchecked::<Probe>(k) });
        let v = unsafe { slab.remove_unpin::<Probe>(h) };
        assert!(unsafe { DROPS } == 0, "C02.remove_unpin_never_runs_destructor");
        assert!(v.0 as usize == k, "C01.remove_unpin_returns_stored_value");
        assert!(slab_wf::<CAP>(&slab), "C01.remove_unpin_wf_after");
        mem::forget(v);
        mem::forget(slab);
    }

    fn drop_slab_drops_each_once<const CAP: usize>() {
        let slab = any_wf_probe_slab::<CAP>(DropPolicy::MayDropContents, 0);
        let pre_count = slab.count as u32;
        let mut expect = 0u32;
        let mut j = 0;
        while j < CAP {
            if occupied(&slab, j) {
                expect |= 1u32 << j;
            }
            j += 1;
        }
        drop(slab);
        unsafe {
            assert!(DROPS == pre_count, "C02.slab_drop_runs_each_destructor_once");
            assert!(DROPPED_IDS == expect && !DOUBLE_DROP, "C02.slab_drop_exactly_the_occupied_slots");
        }
        kani::cover!(pre_count as usize == CAP);
        kani::cover!(pre_count == 0);
    }

    fn drop_policy_forbidding_panics_iff_nonempty_empty_case<const CAP: usize>() {
        let slab = any_wf_probe_slab::<CAP>(DropPolicy::MustNotDropContents, 0);
        kani::assume(slab.count == 0);
        drop(slab); // must not panic
        assert!(unsafe { DROPS } == 0, "C02.drop_policy_empty_no_destructors");
    }

    fn drop_policy_forbidding_panics_nonempty_case<const CAP: usize>() {
        let slab = any_wf_probe_slab::<CAP>(DropPolicy::MustNotDropContents, 0);
        kani::assume(slab.count > 0);
        drop(slab); // must panic (harness is #[kani::should_panic])
    }

    // ---------------------------------------------------------------- iteration (C02)
    fn iter_contract<const CAP: usize, T: Payload>() {
        let slab = any_wf_slab::<CAP, T>(DropPolicy::MayDropContents);
        let mut yielded = [false; CAP];
        let mut n = 0usize;
        let mut it = slab.iter();
        let mut step = 0;
        while step < CAP + 2 {
            let remaining = slab.count - n;
            assert!(it.len() == remaining, "C02.iter_len_is_remaining");
            assert!(it.size_hint() == (remaining, Some(remaining)), "C02.iter_size_hint");
            let back: bool = kani::any();
            let r = if back { it.next_back() } else { it.next() };
            if remaining == 0 {
                assert!(r.is_none(), "C02.iter_none_after_all_yielded (fused)");
            } else {
                let p = r.expect("C02.iter_yields_while_remaining").as_ptr() as usize;
                // which slot?
                let mut found = CAP;
                let mut j = 0;
                while j < CAP {
                    if p == expected_object_addr(&slab, j) {
                        found = j;
                    }
                    j += 1;
                }
                assert!(found < CAP, "C02.iter_yields_object_address");
                assert!(occupied(&slab, found), "C02.iter_yields_only_live_objects");
                assert!(!yielded[found], "C02.iter_yields_each_once");
                // forward yields the lowest not-yet-yielded live slot, backward the highest
                let mut j = 0;
                while j < CAP {
                    if occupied(&slab, j) && !yielded[j] {
                        if back {
                            assert!(j <= found, "C02.iter_back_order");
                        } else {
                            assert!(j >= found, "C02.iter_front_order");
                        }
                    }
                    j += 1;
                }
                yielded[found] = true;
                n += 1;
            }
            step += 1;
        }
        assert!(n == slab.count, "C02.iter_yields_all");
        kani::cover!(slab.count == CAP);
        mem::forget(slab);
    }

    /// History harness from `new()` (checks that `slab_wf` is not stronger than reachability on short histories,
    /// and gives a second, independent route to the same contracts).
    fn history<const CAP: usize, const STEPS: usize>() {
        let layout = wf_layout(Layout::new::<u32>(), CAP);
        let mut slab = Slab::new(layout, DropPolicy::MayDropContents);
        let mut handles: [Option<SlabHandle<u32>>; CAP] = [None; CAP];
        let mut vals = [0u32; CAP];
        let mut step = 0;
        while step < STEPS {
            let do_insert: bool = kani::any();
            if do_insert {
                if !slab.is_full() {
                    let v: u32 = kani::any();
                    let h = unsafe { slab.insert_with_unchecked::<u32, _>(|u| { u.write(v); }) };
                    let idx = h.index();
                    assert!(idx < CAP && handles[idx].is_none(), "C01.history_insert_exclusive");
                    handles[idx] = Some(h);
                    vals[idx] = v;
                }
            } else {
                let k: usize = kani::any();
                kani::assume(k < CAP);
                if let Some(h) = handles[k].take() {
                    unsafe { slab.remove(h); }
                }
            }
            assert!(slab_wf::<CAP>(&slab), "C01.history_wf");
            let mut j = 0;
            while j < CAP {
                if let Some(h) = handles[j] {
                    assert!(unsafe { *h.ptr().as_ptr() } == vals[j], "C01.history_values_stable");
                    assert!(h.ptr().as_ptr() as usize == expected_object_addr(&slab, j), "C01.history_address_stable");
                }
                j += 1;
            }
            step += 1;
        }
        mem::forget(slab);
    }

    // ---------------------------------------------------------------- harness instances
    macro_rules! inst {
        ($name:ident, $unwind:expr, $body:expr) => {
            #[kani::proof]
            #[kani::unwind($unwind)]
            fn $name() {
                $body
            }
        };
    }
    macro_rules! inst_nounwind {
        ($name:ident, $unwind:expr, $body:expr) => {
            #[kani::proof]
            #[kani::unwind($unwind)]
            #[kani::stub(crate::opaque::slab::catch_unwind, crate::opaque::slab::verif_kani_slab::catch_unwind_stub)]
            #[kani::stub(crate::opaque::slab::resume_unwind, crate::opaque::slab::verif_kani_slab::resume_unwind_stub)]
            #[kani::stub(std::thread::panicking, crate::opaque::slab::verif_kani_slab::panicking_stub)]
            fn $name() {
                $body
            }
        };
    }

    inst!(slab_new_contract_cap3_u32, 5, new_contract::<3, u32>());
    inst!(slab_new_contract_cap2_a16, 18, new_contract::<2, A16>());

    inst!(slab_insert_contract_cap1_u8, 4, insert_contract::<1, u8>());
    inst!(slab_insert_contract_cap2_u32, 5, insert_contract::<2, u32>());
    inst!(slab_insert_contract_cap3_u32, 6, insert_contract::<3, u32>());
    inst!(slab_insert_contract_cap2_a16, 18, insert_contract::<2, A16>());
    inst!(slab_insert_contract_cap4_u32, 7, insert_contract::<4, u32>());

    inst!(slab_remove_contract_cap1_u8, 4, remove_contract::<1, u8>());
    inst!(slab_remove_contract_cap2_u32, 5, remove_contract::<2, u32>());
    inst!(slab_remove_contract_cap3_u32, 6, remove_contract::<3, u32>());
    inst!(slab_remove_contract_cap2_a16, 18, remove_contract::<2, A16>());
    inst!(slab_remove_contract_cap4_u32, 7, remove_contract::<4, u32>());

    inst!(slab_remove_unpin_contract_cap2_u32, 5, remove_unpin_contract::<2, u32>());
    inst!(slab_remove_unpin_contract_cap3_u32, 6, remove_unpin_contract::<3, u32>());
    inst!(slab_remove_unpin_contract_cap2_a16, 18, remove_unpin_contract::<2, A16>());

    inst!(slab_object_ptr_contract_cap3_u32, 6, object_ptr_contract::<3, u32>());
    inst!(slab_object_ptr_contract_cap2_a16, 18, object_ptr_contract::<2, A16>());
    inst!(slab_object_ptr_contract_cap3_u8, 6, object_ptr_contract::<3, u8>());

    inst!(slab_remove_drops_once_cap2, 5, remove_drops_once::<2>(slab_wf_at_drop_2));
    inst!(slab_remove_drops_once_cap3, 6, remove_drops_once::<3>(slab_wf_at_drop_3));
    inst!(slab_remove_unpin_never_drops_cap2, 5, remove_unpin_never_drops::<2>());
    inst_nounwind!(slab_drop_drops_each_once_cap2, 5, drop_slab_drops_each_once::<2>());
    inst_nounwind!(slab_drop_drops_each_once_cap3, 6, drop_slab_drops_each_once::<3>());
    inst_nounwind!(slab_drop_policy_empty_ok_cap2, 5, drop_policy_forbidding_panics_iff_nonempty_empty_case::<2>());

    // Expected to FAIL exactly the repository's own "dropped a non-empty slab" assertion (unit.toml: expect_fail);
    // if drop() ever returns normally for a non-empty slab the marker below fails as well and is reported.
    #[kani::proof]
    #[kani::unwind(5)]
    #[kani::stub(crate::opaque::slab::catch_unwind, crate::opaque::slab::verif_kani_slab::catch_unwind_stub)]
    #[kani::stub(crate::opaque::slab::resume_unwind, crate::opaque::slab::verif_kani_slab::resume_unwind_stub)]
    #[kani::stub(std::thread::panicking, crate::opaque::slab::verif_kani_slab::panicking_stub)]
    fn slab_drop_policy_nonempty_panics_cap2() {
        drop_policy_forbidding_panics_nonempty_case::<2>();
        assert!(false, "C02.drop_policy_nonempty_must_panic: drop() of a non-empty MustNotDropContents slab returned normally");
    }

    inst!(slab_iter_contract_cap2_u32, 6, iter_contract::<2, u32>());
    inst!(slab_iter_contract_cap3_u32, 7, iter_contract::<3, u32>());

    inst!(slab_history_cap2_4ops, 6, history::<2, 4>());
    inst!(slab_history_cap3_5ops, 7, history::<3, 5>());
}
