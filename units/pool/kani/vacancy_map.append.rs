
// ===== folo-verif overlay (add-only; compiled only under `cargo kani`) =====
#[cfg(kani)]
pub(crate) mod verif_kani {
    use super::*;

    /// Builds a map of `n <= 64` bits directly from a bit pattern; stale bits beyond `n` are 1
    /// (the `stale(true)` invariant the Verus unit proves the tracker maintains).
    pub(crate) fn map_from_bits(n: usize, bits: u64) -> VacancyMap {
        assert!(n <= 64);
        if n == 0 {
            return VacancyMap::new();
        }
        let live = if n == 64 { u64::MAX } else { (1u64 << n) - 1 };
        VacancyMap { blocks: vec![(bits & live) | !live], len_bits: n }
    }

    pub(crate) fn map_bit(m: &VacancyMap, i: usize) -> bool {
        (m.blocks[i / 64] >> (i % 64)) & 1 == 1
    }

    pub(crate) fn map_stale_ok(m: &VacancyMap) -> bool {
        if m.blocks.len() != m.len_bits.div_ceil(64) {
            return false;
        }
        if m.len_bits % 64 == 0 {
            return true;
        }
        let last = m.blocks[m.blocks.len() - 1];
        let live = (1u64 << (m.len_bits % 64)) - 1;
        last | live == u64::MAX
    }

    // ---- contracts assumed by the Verus unit about dependencies, checked here on the real crates (full domain)
    #[kani::proof]
    fn dep_div_rem_contract() {
        let a: usize = kani::any();
        let b: usize = BITS_PER_BLOCK; // the only divisor the vacancy index ever uses; the Verus shim requires it
        let (q, r) = a.div_rem(&b);
        assert!(q == a / b && r == a % b, "dep.num_integer_div_rem");
    }

    #[kani::proof]
    fn dep_div_ceil_contract() {
        let a: usize = kani::any();
        let b: usize = BITS_PER_BLOCK; // as above
        let r = a.div_ceil(b);
        assert!(r == if a % b == 0 { a / b } else { a / b + 1 }, "dep.usize_div_ceil");
    }

    #[kani::proof]
    fn dep_unbounded_shl_contract() {
        let x: u64 = kani::any();
        let s: u32 = kani::any();
        let r = x.unbounded_shl(s);
        assert!(r == if s < 64 { x << s } else { 0 }, "dep.u64_unbounded_shl");
    }

    #[kani::proof]
    fn dep_trailing_zeros_contract() {
        let x: u64 = kani::any();
        kani::assume(x != 0);
        let t = x.trailing_zeros();
        assert!(t < 64 && (x >> t) & 1 == 1 && (t == 0 || x & ((1u64 << t) - 1) == 0), "dep.u64_trailing_zeros");
    }

    /// mask_bits for every block and every range (the same contract Verus proves; bit-precise cross-check).
    #[kani::proof]
    fn mask_bits_contract() {
        let block: u64 = kani::any();
        let s: usize = kani::any();
        let e: usize = kani::any();
        kani::assume(s <= e && e < 64);
        let r = mask_bits(block, s, e);
        let i: usize = kani::any();
        kani::assume(i < 64);
        assert!(get_bit(r, i) == (get_bit(block, i) && s <= i && i <= e), "C01.mask_bits");
    }

    /// Bounded back-stop for the Verus proof of `resize` (which needs proof text spliced at anchors inside the body
    /// and is therefore undecided when those lines are edited): concrete (old, new) lengths around the 64-bit block
    /// boundary, arbitrary old contents and fill value, under resize's precondition (stated and discharged in the
    /// Verus unit: the stale bits beyond the old length equal the fill value - the tracker always passes `true`).
    /// Old bits below min(old, new) keep their value, fresh bits take `initial_value`, the block count matches.
    fn resize_case(old: usize, new: usize) {
        let b0: u64 = kani::any();
        let b1: u64 = kani::any();
        let fill: bool = kani::any();
        let stale = |live: u64| if fill { !live } else { 0 };
        let mut m = if old == 0 {
            VacancyMap::new()
        } else if old <= 64 {
            let live = if old == 64 { u64::MAX } else { (1u64 << old) - 1 };
            VacancyMap { blocks: vec![(b0 & live) | stale(live)], len_bits: old }
        } else {
            let live = (1u64 << (old - 64)) - 1;
            VacancyMap { blocks: vec![b0, (b1 & live) | stale(live)], len_bits: old }
        };
        m.resize(new, fill);
        assert!(m.len() == new, "C01.resize_len");
        assert!(m.blocks.len() == new.div_ceil(64), "C01.resize_block_count");
        let i: usize = kani::any();
        kani::assume(i < new);
        let expect = if i < old { if i < 64 { (b0 >> i) & 1 == 1 } else { (b1 >> (i - 64)) & 1 == 1 } } else { fill };
        assert!(map_bit(&m, i) == expect, "C01.resize_keeps_old_bits_and_fills_fresh_bits");
    }
    macro_rules! resize_inst {
        ($name:ident, $old:expr, $new:expr) => {
            #[kani::proof]
            #[kani::unwind(66)]
            fn $name() {
                resize_case($old, $new);
            }
        };
    }
    resize_inst!(resize_bounded_3_to_67, 3, 67);
    resize_inst!(resize_bounded_63_to_64, 63, 64);
    resize_inst!(resize_bounded_64_to_65, 64, 65);
    resize_inst!(resize_bounded_70_to_130, 70, 130);
    resize_inst!(resize_bounded_0_to_5, 0, 5);
    resize_inst!(resize_bounded_5_to_40, 5, 40);
    resize_inst!(resize_bounded_100_to_3, 100, 3);
    resize_inst!(resize_bounded_67_to_64, 67, 64);
}
