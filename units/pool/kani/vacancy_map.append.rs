
// ===== folo-verif overlay (add-only; compiled only under `cargo kani`) =====
#[cfg(kani)]
pub(crate) mod verif_kani {
    use super::*;

    /// Builds a map of `n <= 64` bits directly from a bit pattern; stale bits beyond `n` are 1
    /// (the `stale(true)` invariant the Verus unit proves the tracker maintains).
    pub(crate) fn map_from_bits(n: usize, bits: u64) -> VacancyMap {
        assert!(n <= 64);
        if n == 0 {
            return VacancyMap::new();
        }
        let live = if n == 64 { u64::MAX } else { (1u64 << n) - 1 };
        VacancyMap { blocks: vec![(bits & live) | !live], len_bits: n }
    }

    pub(crate) fn map_bit(m: &VacancyMap, i: usize) -> bool {
        (m.blocks[i / 64] >> (i % 64)) & 1 == 1
    }

    pub(crate) fn map_stale_ok(m: &VacancyMap) -> bool {
        if m.blocks.len() != m.len_bits.div_ceil(64) {
            return false;
        }
        if m.len_bits % 64 == 0 {
            return true;
        }
        let last = m.blocks[m.blocks.len() - 1];
        let live = (1u64 << (m.len_bits % 64)) - 1;
        last | live == u64::MAX
    }

    // ---- contracts assumed by the Verus unit about dependencies, checked here on the real crates (full domain)
    #[kani::proof]
    fn dep_div_rem_contract() {
        let a: usize = kani::any();
        let b: usize = BITS_PER_BLOCK; // the only divisor the vacancy index ever uses; the Verus shim requires it
        let (q, r) = a.div_rem(&b);
        assert!(q == a / b && r == a % b, "dep.num_integer_div_rem");
    }

    #[kani::proof]
    fn dep_div_ceil_contract() {
        let a: usize = kani::any();
        let b: usize = BITS_PER_BLOCK; // as above
        let r = a.div_ceil(b);
        assert!(r == if a % b == 0 { a / b } else { a / b + 1 }, "dep.usize_div_ceil");
    }

    #[kani::proof]
    fn dep_unbounded_shl_contract() {
        let x: u64 = kani::any();
        let s: u32 = kani::any();
        let r = x.unbounded_shl(s);
        assert!(r == if s < 64 { x << s } else { 0 }, "dep.u64_unbounded_shl");
    }

    #[kani::proof]
    fn dep_trailing_zeros_contract() {
        let x: u64 = kani::any();
        kani::assume(x != 0);
        let t = x.trailing_zeros();
        assert!(t < 64 && (x >> t) & 1 == 1 && (t == 0 || x & ((1u64 << t) - 1) == 0), "dep.u64_trailing_zeros");
    }

    /// mask_bits for every block and every range (the same contract Verus proves; bit-precise cross-check).
    #[kani::proof]
    fn mask_bits_contract() {
        let block: u64 = kani::any();
        let s: usize = kani::any();
        let e: usize = kani::any();
        kani::assume(s <= e && e < 64);
        let r = mask_bits(block, s, e);
        let i: usize = kani::any();
        kani::assume(i < 64);
        assert!(get_bit(r, i) == (get_bit(block, i) && s <= i && i <= e), "C01.mask_bits");
    }
}
