
// ===== folo-verif overlay (add-only; compiled only under `cargo kani`) =====
#[cfg(kani)]
pub(crate) mod verif_kani_pool {
    use super::*;
    use crate::opaque::slab::verif_kani_slab::{
        any_wf_probe_slab, any_wf_slab, base_of, expected_object_addr, occupied, slab_wf, Probe, CHECK_AT_DROP, DOUBLE_DROP, DROPPED_IDS,
        DROPS, WF_AT_DROP,
    };
    use crate::opaque::slab_layout::verif_kani::wf_layout;
    use crate::SlabHandle;
    use crate::opaque::vacancy_tracker::verif_kani::{tracker_bit, tracker_from_bits, tracker_len, tracker_wf};

    /// Slab capacity used by the pool harnesses (the pool only sees slabs through their contract, so a small
    /// capacity exercises every pool-level branch: full / not full / empty).
    pub(crate) const CAP: usize = 2;
    /// Maximum number of slabs examined by `pool_wf` (pre-states have at most MAXS-1 slabs so that growth fits).
    pub(crate) const MAXS: usize = 4;

    /// `RawOpaquePool::wf`:
    ///  * every slab satisfies `slab_wf` and uses the pool's layout and drop policy,
    ///  * the tracker tracks exactly `slabs.len()` slabs, bit i <=> slab i is not full, the cache is the least
    ///    such i, stale bits are 1 (the tracker's own invariant, proved for any size by the Verus unit),
    ///  * `length` is the sum of the slabs' counts.
    pub(crate) fn pool_wf(pool: &RawOpaquePool) -> bool {
        let n = pool.slabs.len();
        if n > MAXS || tracker_len(&pool.vacancy_tracker) != n || !tracker_wf(&pool.vacancy_tracker, MAXS) {
            return false;
        }
        let mut total = 0usize;
        let mut i = 0;
        while i < MAXS {
            if i < n {
                let slab = &pool.slabs[i];
                if !slab_wf::<CAP>(slab) {
                    return false;
                }
                if tracker_bit(&pool.vacancy_tracker, i) == slab.is_full() {
                    return false;
                }
                total += slab.len();
            }
            i += 1;
        }
        pool.length == total
    }

    /// Arbitrary pool state with exactly `nslabs` slabs satisfying `pool_wf`; slab contents arbitrary.
    pub(crate) fn any_wf_pool<T: kani::Arbitrary + 'static>(nslabs: usize, policy: DropPolicy) -> RawOpaquePool {
        let mut pool = RawOpaquePool::new_inner(Layout::new::<T>(), policy);
        pool.slab_layout = wf_layout(Layout::new::<T>(), CAP);
        let mut bits = 0u64;
        let mut total = 0usize;
        let mut i = 0;
        while i < nslabs {
            let s = any_wf_slab::<CAP, T>(policy);
            if !s.is_full() {
                bits |= 1u64 << i;
            }
            total += s.len();
            pool.slabs.push(s);
            i += 1;
        }
        pool.vacancy_tracker = tracker_from_bits(nslabs, bits);
        pool.length = total;
        pool
    }

    pub(crate) fn any_wf_probe_pool(nslabs: usize, policy: DropPolicy) -> RawOpaquePool {
        let mut pool = RawOpaquePool::new_inner(Layout::new::<Probe>(), policy);
        pool.slab_layout = wf_layout(Layout::new::<Probe>(), CAP);
        let mut bits = 0u64;
        let mut total = 0usize;
        let mut i = 0;
        while i < nslabs {
            let s = any_wf_probe_slab::<CAP>(policy, (i * CAP) as u8);
            if !s.is_full() {
                bits |= 1u64 << i;
            }
            total += s.len();
            pool.slabs.push(s);
            i += 1;
        }
        pool.vacancy_tracker = tracker_from_bits(nslabs, bits);
        pool.length = total;
        pool
    }

    #[derive(Clone, Copy)]
    struct PSnap {
        n: usize,
        bases: [usize; MAXS],
        occ: [[bool; CAP]; MAXS],
        vals: [[u32; CAP]; MAXS],
        len: usize,
    }

    fn psnap(pool: &RawOpaquePool) -> PSnap {
        let mut s = PSnap { n: pool.slabs.len(), bases: [0; MAXS], occ: [[false; CAP]; MAXS], vals: [[0; CAP]; MAXS], len: pool.length };
        let mut i = 0;
        while i < MAXS {
            if i < s.n {
                let slab = &pool.slabs[i];
                s.bases[i] = base_of(slab);
                let mut j = 0;
                while j < CAP {
                    s.occ[i][j] = occupied(slab, j);
                    if s.occ[i][j] {
                        s.vals[i][j] = unsafe { *(expected_object_addr(slab, j) as *const u32) };
                    }
                    j += 1;
                }
            }
            i += 1;
        }
        s
    }

    /// Frame over the whole pool: every slab that existed before and still exists keeps its slot array address;
    /// every object other than (ex_slab, ex_slot) is still live at the same address with the same value; no other
    /// slot became occupied.
    fn pframe_ok(pool: &RawOpaquePool, pre: &PSnap, ex_slab: usize, ex_slot: usize) -> bool {
        let n = pool.slabs.len();
        let mut i = 0;
        while i < MAXS {
            if i < pre.n && i < n {
                let slab = &pool.slabs[i];
                if base_of(slab) != pre.bases[i] {
                    return false;
                }
                let mut j = 0;
                while j < CAP {
                    if !(i == ex_slab && j == ex_slot) {
                        if occupied(slab, j) != pre.occ[i][j] {
                            return false;
                        }
                        if pre.occ[i][j] && unsafe { *(expected_object_addr(slab, j) as *const u32) } != pre.vals[i][j] {
                            return false;
                        }
                    }
                    j += 1;
                }
            }
            i += 1;
        }
        true
    }

    fn first_not_full(pre: &PSnap) -> Option<usize> {
        let mut i = 0;
        let mut r = None;
        while i < MAXS {
            if i < pre.n && r.is_none() && !(pre.occ[i][0] && pre.occ[i][1]) {
                r = Some(i);
            }
            i += 1;
        }
        r
    }

    // ------------------------------------------------------------------ contracts
    fn insert_contract(nslabs: usize) {
        let mut pool = any_wf_pool::<u32>(nslabs, DropPolicy::MayDropContents);
        assert!(pool_wf(&pool), "harness: builder establishes pool_wf");
        let pre = psnap(&pool);
        let v: u32 = kani::any();
        let mut wf_at_cb = false;
        let pool_ptr = &raw const pool;
        let h = unsafe {
            pool.insert_with_unchecked::<u32, _>(|u| {
                // C04: user code (the init closure) runs while the pool satisfies its invariant, apart from a
                // freshly added empty slab, which is itself consistent
                wf_at_cb = pool_wf(&*pool_ptr) && (&*pool_ptr).length == pre.len;
                u.write(v);
            })
        };
        let si = h.slab_index();
        let k = h.slab_handle().index();
        assert!(wf_at_cb, "C04.pool_wf_when_init_closure_runs");
        match first_not_full(&pre) {
            Some(f) => {
                assert!(si == f, "C01.pool_insert_least_vacant_slab");
                assert!(pool.slabs.len() == pre.n, "C02.pool_insert_no_growth_when_vacancy");
            }
            None => {
                assert!(si == pre.n && pool.slabs.len() == pre.n + 1, "C01.pool_insert_grows_by_one_slab_when_full");
            }
        }
        assert!(k < CAP && (si >= pre.n || !pre.occ[si][k]), "C01.pool_insert_slot_was_vacant");
        assert!(h.ptr().as_ptr() as usize == expected_object_addr(&pool.slabs[si], k), "C01.pool_insert_addr");
        assert!(h.ptr().as_ptr() as usize % 4 == 0, "C01.pool_insert_aligned");
        assert!(unsafe { *h.ptr().as_ptr() } == v, "C01.pool_insert_value_readback");
        assert!(pool.len() == pre.len + 1 && !pool.is_empty(), "C02.pool_insert_len");
        assert!(pool.capacity() == pool.slabs.len() * CAP && pool.capacity() >= pool.len(), "C02.pool_capacity_ge_len");
        assert!(pframe_ok(&pool, &pre, si, k), "C01.pool_insert_frame (addresses and values of all other live objects unchanged)");
        assert!(pool_wf(&pool), "C01.pool_insert_wf_after");
        kani::cover!(pool.slabs.len() == pre.n + 1);
        kani::cover!(nslabs == 0 || (pool.slabs.len() == pre.n && pool.vacancy_tracker.next_vacancy().is_none()));
        kani::cover!(nslabs < 2 || si == 1);
        mem_forget(pool);
    }

    fn mem_forget<T>(t: T) {
        core::mem::forget(t);
    }

    fn pick_live(pool: &RawOpaquePool) -> (usize, usize) {
        let i: usize = kani::any();
        let j: usize = kani::any();
        kani::assume(i < pool.slabs.len() && j < CAP && occupied(&pool.slabs[i], j));
        (i, j)
    }

    fn remove_contract(nslabs: usize) {
        let mut pool = any_wf_pool::<u32>(nslabs, DropPolicy::MayDropContents);
        let (i, j) = pick_live(&pool);
        let pre = psnap(&pool);
        let h: RawPooled<u32> = RawPooled::new(i, SlabHandle::new(j, NonNull::new(expected_object_addr(&pool.slabs[i], j) as *mut u32).unwrap()));
        unsafe {
            pool.remove(h);
        }
        assert!(!occupied(&pool.slabs[i], j), "C02.pool_remove_slot_vacant");
        assert!(pool.len() + 1 == pre.len, "C02.pool_remove_len");
        assert!(pool.slabs.len() == pre.n, "C01.pool_remove_keeps_slabs");
        assert!(pframe_ok(&pool, &pre, i, j), "C01.pool_remove_frame");
        assert!(pool_wf(&pool), "C01.pool_remove_wf_after");
        assert!(pool.is_empty() == (pre.len == 1), "C02.pool_is_empty");
        kani::cover!(pre.occ[i][0] && pre.occ[i][1]);
        kani::cover!(nslabs < 2 || (i > 0 && pool.vacancy_tracker.next_vacancy() == Some(i)));
        mem_forget(pool);
    }

    fn remove_unpin_contract(nslabs: usize) {
        let mut pool = any_wf_pool::<u32>(nslabs, DropPolicy::MayDropContents);
        let (i, j) = pick_live(&pool);
        let pre = psnap(&pool);
        let h: RawPooled<u32> = RawPooled::new(i, SlabHandle::new(j, NonNull::new(expected_object_addr(&pool.slabs[i], j) as *mut u32).unwrap()));
        let v = unsafe { pool.remove_unpin(h) };
        assert!(v == pre.vals[i][j], "C01.pool_remove_unpin_returns_stored_value");
        assert!(!occupied(&pool.slabs[i], j), "C02.pool_remove_unpin_slot_vacant");
        assert!(pool.len() + 1 == pre.len, "C02.pool_remove_unpin_len");
        assert!(pframe_ok(&pool, &pre, i, j), "C01.pool_remove_unpin_frame");
        assert!(pool_wf(&pool), "C01.pool_remove_unpin_wf_after");
        mem_forget(pool);
    }

    static mut POOL_PTR: *const RawOpaquePool = core::ptr::null();
    fn pool_wf_at_drop() -> bool {
        unsafe { pool_wf(&*POOL_PTR) }
    }

    /// C02 + C04 at pool level: the destructor runs exactly once, for the removed object, and at that moment the
    /// pool (length, vacancy index, slabs) already satisfies its invariant - so a panic in it leaves a usable pool.
    fn remove_drops_once_and_sees_wf_pool(nslabs: usize) {
        let mut pool = any_wf_probe_pool(nslabs, DropPolicy::MayDropContents);
        assert!(pool_wf(&pool), "harness: builder establishes pool_wf");
        let (i, j) = pick_live(&pool);
        let pre_len = pool.len();
        let h: RawPooled<Probe> = RawPooled::new(i, SlabHandle::new(j, NonNull::new(expected_object_addr(&pool.slabs[i], j) as *mut Probe).unwrap()));
        unsafe {
            POOL_PTR = &raw const pool;
            CHECK_AT_DROP = Some(pool_wf_at_drop);
        }
        unsafe {
            pool.remove(h);
        }
        unsafe {
            assert!(DROPS == 1, "C02.pool_remove_runs_destructor_exactly_once");
            assert!(DROPPED_IDS == 1u32 << (i * CAP + j), "C02.pool_remove_drops_the_removed_object");
            assert!(WF_AT_DROP, "C04.pool_wf_when_destructor_runs");
        }
        assert!(pool.len() + 1 == pre_len && pool_wf(&pool), "C02.pool_remove_len");
        kani::cover!(pool.slabs[i].len() == CAP - 1);
        mem_forget(pool);
    }

    fn remove_unpin_never_drops(nslabs: usize) {
        let mut pool = any_wf_probe_pool(nslabs, DropPolicy::MayDropContents);
        let (i, j) = pick_live(&pool);
        let h: RawPooled<Probe> = RawPooled::new(i, SlabHandle::new(j, NonNull::new(expected_object_addr(&pool.slabs[i], j) as *mut Probe).unwrap()));
        let v = unsafe { pool.remove_unpin(h) };
        assert!(unsafe { DROPS } == 0, "C02.pool_remove_unpin_never_runs_destructor");
        assert!(v.0 as usize == i * CAP + j, "C01.pool_remove_unpin_returns_stored_value");
        mem_forget(v);
        mem_forget(pool);
    }

    fn drop_pool_drops_each_once(nslabs: usize) {
        let pool = any_wf_probe_pool(nslabs, DropPolicy::MayDropContents);
        let pre_len = pool.len() as u32;
        let mut expect = 0u32;
        let mut i = 0;
        while i < MAXS {
            if i < nslabs {
                let mut j = 0;
                while j < CAP {
                    if occupied(&pool.slabs[i], j) {
                        expect |= 1u32 << (i * CAP + j);
                    }
                    j += 1;
                }
            }
            i += 1;
        }
        drop(pool);
        unsafe {
            assert!(DROPS == pre_len, "C02.pool_drop_runs_each_destructor_once");
            assert!(DROPPED_IDS == expect && !DOUBLE_DROP, "C02.pool_drop_exactly_the_live_objects");
        }
    }

    /// `len` and `add` are concrete per instance: a symbolic number of new slabs makes Vec::extend allocate a
    /// symbolic-size block, which CBMC cannot handle (memory blow-up). Slab contents stay arbitrary.
    fn reserve_contract(nslabs: usize, len: usize, add: usize) {
        let mut pool = any_wf_pool::<u32>(nslabs, DropPolicy::MayDropContents);
        kani::assume(pool.length == len);
        pool.length = len;
        let pre = psnap(&pool);
        pool.reserve(add);
        assert!(pool.capacity() >= pool.len() + add, "C02.reserve_makes_room");
        assert!(pool.len() == pre.len, "C02.reserve_keeps_len");
        assert!(pool.slabs.len() >= pre.n, "C01.reserve_never_removes_slabs");
        assert!(pool.slabs.len() == pre.n || (pool.slabs.len() - 1) * CAP < pre.len + add, "C02.reserve_minimal_growth");
        assert!(pframe_ok(&pool, &pre, MAXS, CAP), "C01.reserve_frame (all live objects keep address and value)");
        assert!(pool_wf(&pool), "C01.reserve_wf_after");
        mem_forget(pool);
    }

    /// After `reserve(add)`, `add` further inserts do not grow the pool (no new slab).
    fn reserve_then_insert(nslabs: usize, len: usize, add: usize) {
        let mut pool = any_wf_pool::<u32>(nslabs, DropPolicy::MayDropContents);
        kani::assume(pool.length == len);
        pool.length = len;
        pool.reserve(add);
        let slabs_after = pool.slabs.len();
        let mut t = 0;
        while t < add {
            let v: u32 = kani::any();
            let _h = unsafe { pool.insert_with_unchecked::<u32, _>(|u| { u.write(v); }) };
            assert!(pool.slabs.len() == slabs_after, "C02.reserve_then_insert_without_growth");
            t += 1;
        }
        assert!(pool_wf(&pool), "C01.reserve_inserts_wf_after");
        mem_forget(pool);
    }

    fn shrink_contract(nslabs: usize) {
        let mut pool = any_wf_pool::<u32>(nslabs, DropPolicy::MayDropContents);
        let pre = psnap(&pool);
        // precondition of VacancyTracker::update_slab_count (Verus contract): every slab that may be truncated
        // away is recorded as having a vacancy. Follows from pool_wf: an empty slab is not full.
        let mut i = 0;
        while i < MAXS {
            if i < pre.n && pool.slabs[i].is_empty() {
                assert!(tracker_bit(&pool.vacancy_tracker, i), "C01.shrink_tracker_precondition");
            }
            i += 1;
        }
        pool.shrink_to_fit();
        let n = pool.slabs.len();
        assert!(n <= pre.n, "C01.shrink_never_grows");
        assert!(n == 0 || !pool.slabs[n - 1].is_empty(), "C02.shrink_removes_all_trailing_empty_slabs");
        // only empty slabs were removed
        let mut i = 0;
        while i < MAXS {
            if i >= n && i < pre.n {
                assert!(!pre.occ[i][0] && !pre.occ[i][1], "C01.shrink_removes_only_empty_slabs");
            }
            i += 1;
        }
        assert!(pool.len() == pre.len, "C02.shrink_keeps_len");
        assert!(pool.capacity() >= pool.len(), "C02.pool_capacity_ge_len");
        assert!(pframe_ok(&pool, &pre, MAXS, CAP), "C01.shrink_frame (all live objects keep address and value)");
        assert!(pool_wf(&pool), "C01.shrink_wf_after");
        kani::cover!(nslabs < 2 || n + 2 == pre.n);
        kani::cover!(n == pre.n && n > 0);
        kani::cover!(n == 0 && pre.n > 0);
        mem_forget(pool);
    }

    fn iter_contract(nslabs: usize, dir: Option<bool>) {
        let pool = any_wf_pool::<u32>(nslabs, DropPolicy::MayDropContents);
        let mut yielded = [[false; CAP]; MAXS];
        let mut n = 0usize;
        let mut it = pool.iter();
        let total = pool.len();
        let mut step = 0;
        while step < nslabs * CAP + 1 {
            {
                let remaining = total - n;
                assert!(it.len() == remaining, "C02.pool_iter_len_is_remaining");
                let back: bool = match dir { Some(b) => b, None => kani::any() };
                let r = if back { it.next_back() } else { it.next() };
                if remaining == 0 {
                    assert!(r.is_none(), "C02.pool_iter_none_after_all_yielded");
                } else {
                    let p = r.expect("C02.pool_iter_yields_while_remaining").as_ptr() as usize;
                    let mut fi = MAXS;
                    let mut fj = CAP;
                    let mut i = 0;
                    while i < MAXS {
                        if i < nslabs {
                            let mut j = 0;
                            while j < CAP {
                                if p == expected_object_addr(&pool.slabs[i], j) {
                                    fi = i;
                                    fj = j;
                                }
                                j += 1;
                            }
                        }
                        i += 1;
                    }
                    assert!(fi < MAXS && fj < CAP, "C02.pool_iter_yields_object_address");
                    assert!(occupied(&pool.slabs[fi], fj), "C02.pool_iter_yields_only_live_objects");
                    assert!(!yielded[fi][fj], "C02.pool_iter_yields_each_once");
                    yielded[fi][fj] = true;
                    n += 1;
                }
            }
            step += 1;
        }
        assert!(n == total, "C02.pool_iter_yields_all");
        kani::cover!(total == nslabs * CAP && nslabs > 0);
        mem_forget(pool);
    }

    /// new_inner establishes the invariant; accessors agree with the abstract state.
    #[kani::proof]
    #[kani::unwind(6)]
    fn pool_new_contract() {
        let pool = RawOpaquePool::new_inner(Layout::new::<u32>(), DropPolicy::MayDropContents);
        assert!(pool.len() == 0 && pool.is_empty() && pool.capacity() == 0 && pool.slabs.is_empty(), "C02.pool_new_empty");
        assert!(pool.object_layout() == Layout::new::<u32>(), "C01.pool_new_layout");
        assert!(tracker_len(&pool.vacancy_tracker) == 0 && pool.vacancy_tracker.next_vacancy().is_none(), "C01.pool_new_tracker");
        mem_forget(pool);
    }

    macro_rules! inst {
        ($name:ident, $unwind:expr, $body:expr) => {
            #[kani::proof]
            #[kani::unwind($unwind)]
            fn $name() {
                $body
            }
        };
    }

    macro_rules! inst_nounwind {
        ($name:ident, $unwind:expr, $body:expr) => {
            #[kani::proof]
            #[kani::unwind($unwind)]
            #[kani::stub(crate::opaque::slab::catch_unwind, crate::opaque::slab::verif_kani_slab::catch_unwind_stub)]
            #[kani::stub(crate::opaque::slab::resume_unwind, crate::opaque::slab::verif_kani_slab::resume_unwind_stub)]
            #[kani::stub(std::thread::panicking, crate::opaque::slab::verif_kani_slab::panicking_stub)]
            fn $name() {
                $body
            }
        };
    }

    inst!(pool_insert_contract_0slabs, 6, insert_contract(0));
    inst!(pool_insert_contract_1slab, 6, insert_contract(1));
    inst!(pool_insert_contract_2slabs, 6, insert_contract(2));
    inst!(pool_insert_contract_3slabs, 6, insert_contract(3));
    inst!(pool_remove_contract_1slab, 6, remove_contract(1));
    inst!(pool_remove_contract_2slabs, 6, remove_contract(2));
    inst!(pool_remove_contract_3slabs, 6, remove_contract(3));
    inst!(pool_remove_unpin_contract_2slabs, 6, remove_unpin_contract(2));
    inst!(pool_remove_drops_once_sees_wf_1slab, 6, remove_drops_once_and_sees_wf_pool(1));
    inst!(pool_remove_drops_once_sees_wf_2slabs, 6, remove_drops_once_and_sees_wf_pool(2));
    inst!(pool_remove_unpin_never_drops_2slabs, 6, remove_unpin_never_drops(2));
    inst_nounwind!(pool_drop_drops_each_once_2slabs, 6, drop_pool_drops_each_once(2));
    inst!(pool_reserve_contract_0slabs_len0_add1, 6, reserve_contract(0, 0, 1));
    inst!(pool_reserve_contract_0slabs_len0_add3, 6, reserve_contract(0, 0, 3));
    inst!(pool_reserve_contract_1slab_len1_add1, 6, reserve_contract(1, 1, 1));
    inst!(pool_reserve_contract_1slab_len2_add1, 6, reserve_contract(1, 2, 1));
    inst!(pool_reserve_contract_1slab_len2_add3, 6, reserve_contract(1, 2, 3));
    inst!(pool_reserve_contract_2slabs_len3_add0, 6, reserve_contract(2, 3, 0));
    inst!(pool_reserve_contract_2slabs_len3_add2, 6, reserve_contract(2, 3, 2));
    inst!(pool_reserve_then_insert_1slab_len1_add2, 6, reserve_then_insert(1, 1, 2));
    inst_nounwind!(pool_shrink_contract_1slab, 6, shrink_contract(1));
    inst_nounwind!(pool_shrink_contract_2slabs, 6, shrink_contract(2));
    inst_nounwind!(pool_shrink_contract_3slabs, 6, shrink_contract(3));
    // pool iterator: the 1-slab instance over real slabs was unreliable (> 3600 s under load), 2-slab instances did not
    // finish or exhausted memory: decided instead over the slab iterator's contract in units/pool/pool_iter.kspec.rs.
}
