
// ===== folo-verif overlay (add-only; compiled only under `cargo kani`) =====
#[cfg(kani)]
mod verif_kani {
    use super::*;

    /// Raw handle conversions keep (slab index, slot index, address): the object they designate is unchanged.
    #[kani::proof]
    fn raw_handle_conversions_keep_identity() {
        let mut x: u64 = kani::any();
        let (si, idx): (usize, usize) = (kani::any(), kani::any());
        let p = NonNull::from_mut(&mut x);
        let h = RawPooledMut::new(si, SlabHandle::new(idx, p));
        assert!(h.slab_index() == si && h.slab_handle().index() == idx && h.ptr() == p, "C01.raw_mut_accessors");
        let shared = RawPooledMut::new(si, SlabHandle::new(idx, p)).into_shared();
        assert!(shared.slab_index() == si && shared.slab_handle().index() == idx && shared.ptr() == p, "C01.into_shared_keeps_identity");
        let erased = RawPooledMut::new(si, SlabHandle::new(idx, p)).erase();
        assert!(erased.slab_index() == si && erased.slab_handle().index() == idx && erased.ptr().as_ptr() as usize == p.as_ptr() as usize, "C01.erase_keeps_identity");
        let shared_erased = shared.erase();
        assert!(shared_erased.slab_index() == si && shared_erased.slab_handle().index() == idx && shared_erased.ptr().as_ptr() as usize == p.as_ptr() as usize, "C01.shared_erase_keeps_identity");
        let cl = shared;
        assert!(cl.slab_index() == si && cl.ptr() == p, "C01.shared_copy_keeps_identity");
        let conv: RawPooled<u64> = h.into();
        assert!(conv.slab_index() == si && conv.ptr() == p, "C01.into_raw_pooled_keeps_identity");
    }
}
