
// ===== folo-verif overlay (add-only; compiled only under `cargo kani`) =====
#[cfg(kani)]
mod verif_kani {
    use super::*;

    /// Handle conversions (type erasure, casts) keep the slot index and the object's address.
    #[kani::proof]
    fn slab_handle_conversions_keep_index_and_address() {
        let mut x: u64 = kani::any();
        let idx: usize = kani::any();
        let p = NonNull::from_mut(&mut x);
        let h = SlabHandle::new(idx, p);
        assert!(h.index() == idx && h.ptr() == p, "C01.handle_accessors");
        let e = unsafe { h.erase() };
        assert!(e.index() == idx && e.ptr().as_ptr() as usize == p.as_ptr() as usize, "C01.erase_keeps_index_and_address");
        let c = unsafe { h.cast_with(|r: &u64| r) };
        assert!(c.index() == idx && c.ptr() == p, "C01.cast_with_keeps_index_and_address");
        let m = unsafe { h.cast_with_mut(|r: &mut u64| r) };
        assert!(m.index() == idx && m.ptr() == p, "C01.cast_with_mut_keeps_index_and_address");
        let copy = h;
        assert!(copy == h, "C01.handle_copy_equal");
        let other_idx: usize = kani::any();
        assert!((SlabHandle::new(other_idx, p) == h) == (other_idx == idx), "C01.handle_eq_is_index_and_address");
    }
}
