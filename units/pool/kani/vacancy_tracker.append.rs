
// ===== folo-verif overlay (add-only; compiled only under `cargo kani`) =====
#[cfg(kani)]
pub(crate) mod verif_kani {
    use super::*;
    use crate::opaque::vacancy_map::verif_kani::{map_bit, map_from_bits, map_stale_ok};

    /// Tracker for `n <= 64` slabs whose vacancy bits are `bits`, with the cache holding the least set bit.
    pub(crate) fn tracker_from_bits(n: usize, bits: u64) -> VacancyTracker {
        let live = if n == 64 { u64::MAX } else { (1u64 << n) - 1 };
        let b = bits & live;
        VacancyTracker { has_vacancy: map_from_bits(n, bits), next_vacancy: if b == 0 { None } else { Some(b.trailing_zeros() as usize) } }
    }

    pub(crate) fn tracker_len(t: &VacancyTracker) -> usize {
        t.has_vacancy.len()
    }

    pub(crate) fn tracker_bit(t: &VacancyTracker, i: usize) -> bool {
        map_bit(&t.has_vacancy, i)
    }

    /// The tracker invariant the Verus unit proves (`twf`): stale bits are 1 and the cache is the least set bit.
    pub(crate) fn tracker_wf(t: &VacancyTracker, max: usize) -> bool {
        if !map_stale_ok(&t.has_vacancy) {
            return false;
        }
        let n = t.has_vacancy.len();
        let mut first: Option<usize> = None;
        let mut i = 0;
        while i < max {
            if i < n && first.is_none() && tracker_bit(t, i) {
                first = Some(i);
            }
            i += 1;
        }
        t.next_vacancy == first
    }
}
