
// ===== folo-verif overlay (add-only; compiled only under `cargo kani`) =====
#[cfg(kani)]
mod verif_kani {
    use super::*;

    /// The blind pool routes an object to the inner pool keyed by its layout: the key is injective on layouts
    /// (size, align <= u32::MAX), so an object only ever lands in a pool whose slot stride was computed for it.
    #[kani::proof]
    fn layout_key_injective() {
        let (s1, s2): (usize, usize) = (kani::any(), kani::any());
        let (a1, a2): (u8, u8) = (kani::any(), kani::any());
        kani::assume(a1 <= 31 && a2 <= 31 && s1 <= (1usize << 31) && s2 <= (1usize << 31));
        let l1 = Layout::from_size_align(s1, 1usize << a1).unwrap();
        let l2 = Layout::from_size_align(s2, 1usize << a2).unwrap();
        let (k1, k2) = (LayoutKey::new(l1), LayoutKey::new(l2));
        assert!((k1 == k2) == (l1 == l2), "C01.layout_key_injective");
        assert!(k1.value >> 32 == s1 as u64 && k1.value & 0xffff_ffff == (1u64 << a1), "C01.layout_key_encoding");
    }
}
