// Single-file Kani unit: RawOpaquePoolIterator (struct, constructor, next, next_back, len, size_hint) cut out of
// /repo on every run, over stand-ins for what it observes of its surroundings: the pool's slab vector and len(), and
// the per-slab iterator. The stand-in SlabIterator is the executable form of the contract that unit pool's in-crate
// harnesses slab_iter_contract_* establish for the real one: under any mix of next / next_back it yields each live
// object of its slab exactly once, ascending from the front and descending from the back, then None.
// The real pool-level harness over real slabs (pool_iter_contract_1slab) did not finish reliably (> 3600 s) and could
// not cross a slab boundary at all; this unit decides the slab-crossing logic for 1..=3 slabs instead.
#![allow(dead_code, unused_imports, clippy::all)]
use std::iter::FusedIterator;
use std::ptr::NonNull;

pub const CAP: usize = 2;
#[derive(Debug)]
pub struct Slab {
    id: usize,
    occ: [bool; CAP],
}
pub fn addr_of(id: usize, j: usize) -> usize {
    (id * CAP + j + 1) * 8
}
impl Slab {
    pub fn iter(&self) -> SlabIterator<'_> {
        SlabIterator { slab: self, front: 0, back: CAP }
    }
    fn count(&self) -> usize {
        let mut n = 0;
        let mut j = 0;
        while j < CAP {
            if self.occ[j] {
                n += 1;
            }
            j += 1;
        }
        n
    }
}
#[derive(Debug)]
pub struct SlabIterator<'s> {
    slab: &'s Slab,
    front: usize,
    back: usize,
}
impl Iterator for SlabIterator<'_> {
    type Item = NonNull<()>;
    fn next(&mut self) -> Option<NonNull<()>> {
        while self.front < self.back {
            let j = self.front;
            self.front += 1;
            if self.slab.occ[j] {
                return NonNull::new(addr_of(self.slab.id, j) as *mut ());
            }
        }
        None
    }
}
impl DoubleEndedIterator for SlabIterator<'_> {
    fn next_back(&mut self) -> Option<NonNull<()>> {
        while self.back > self.front {
            self.back -= 1;
            if self.slab.occ[self.back] {
                return NonNull::new(addr_of(self.slab.id, self.back) as *mut ());
            }
        }
        None
    }
}
/// Vec<Slab> as the iterator sees it: len() and get(index).
#[derive(Debug)]
pub struct Slabs {
    items: [Slab; 3],
    n: usize,
}
impl Slabs {
    pub fn len(&self) -> usize {
        self.n
    }
    pub fn get(&self, i: usize) -> Option<&Slab> {
        if i < self.n { Some(&self.items[i]) } else { None }
    }
}
#[derive(Debug)]
pub struct RawOpaquePool {
    slabs: Slabs,
    length: usize,
}
impl RawOpaquePool {
    pub fn len(&self) -> usize {
        self.length
    }
    pub fn iter(&self) -> RawOpaquePoolIterator<'_> {
        RawOpaquePoolIterator::new(self)
    }
}

#[derive(Debug)]
//@ extract item packages/infinity_pool/src/opaque/pool_raw.rs struct RawOpaquePoolIterator
//@ end

impl<'p> RawOpaquePoolIterator<'p> {
//@ extract fn packages/infinity_pool/src/opaque/pool_raw.rs RawOpaquePoolIterator::new
//@ end
}
impl Iterator for RawOpaquePoolIterator<'_> {
    type Item = NonNull<()>;
//@ extract fn packages/infinity_pool/src/opaque/pool_raw.rs Iterator for RawOpaquePoolIterator::next
//@ end
//@ extract fn packages/infinity_pool/src/opaque/pool_raw.rs Iterator for RawOpaquePoolIterator::size_hint
//@ end
}
impl DoubleEndedIterator for RawOpaquePoolIterator<'_> {
//@ extract fn packages/infinity_pool/src/opaque/pool_raw.rs DoubleEndedIterator for RawOpaquePoolIterator::next_back
//@ end
}
impl ExactSizeIterator for RawOpaquePoolIterator<'_> {
//@ extract fn packages/infinity_pool/src/opaque/pool_raw.rs ExactSizeIterator for RawOpaquePoolIterator::len
//@ end
}

#[cfg(kani)]
mod harness {
    use super::*;
    const MAXS: usize = 3;

    fn any_pool(nslabs: usize) -> RawOpaquePool {
        let items = [Slab { id: 0, occ: kani::any() }, Slab { id: 1, occ: kani::any() }, Slab { id: 2, occ: kani::any() }];
        let mut total = 0;
        let mut i = 0;
        while i < nslabs {
            total += items[i].count();
            i += 1;
        }
        let slabs = Slabs { items, n: nslabs };
        // pool invariant (pool_wf): the cached length is the number of live objects
        RawOpaquePool { slabs, length: total }
    }

    fn iter_contract(nslabs: usize) {
        let pool = any_pool(nslabs);
        let total = pool.len();
        let mut yielded = [[false; CAP]; MAXS];
        let mut n = 0usize;
        let mut it = pool.iter();
        let mut last_front: Option<usize> = None;
        let mut last_back: Option<usize> = None;
        let mut step = 0;
        while step < nslabs * CAP + 2 {
            let remaining = total - n;
            assert!(it.len() == remaining, "C02.pool_iter_len_is_remaining");
            assert!(it.size_hint() == (remaining, Some(remaining)), "C02.pool_iter_size_hint_exact");
            let back: bool = kani::any();
            let r = if back { it.next_back() } else { it.next() };
            if remaining == 0 {
                assert!(r.is_none(), "C02.pool_iter_none_after_all_yielded");
            } else {
                let p = r.expect("C02.pool_iter_yields_while_remaining").as_ptr() as usize;
                assert!(p % 8 == 0 && p >= 8, "C02.pool_iter_yields_object_address");
                let k = p / 8 - 1;
                let (fi, fj) = (k / CAP, k % CAP);
                assert!(fi < nslabs, "C02.pool_iter_yields_object_address");
                assert!(pool.slabs.items[fi].occ[fj], "C02.pool_iter_yields_only_live_objects");
                assert!(!yielded[fi][fj], "C02.pool_iter_yields_each_once");
                yielded[fi][fj] = true;
                if back {
                    assert!(last_back.map_or(true, |l| k < l), "C02.pool_iter_back_is_descending");
                    last_back = Some(k);
                } else {
                    assert!(last_front.map_or(true, |l| k > l), "C02.pool_iter_front_is_ascending");
                    last_front = Some(k);
                }
                n += 1;
            }
            step += 1;
        }
        assert!(n == total, "C02.pool_iter_yields_all");
        kani::cover!(total == nslabs * CAP, "full pool reachable");
        kani::cover!(nslabs < 2 || total == 1, "single object among empty slabs reachable");
    }

    #[kani::proof]
    #[kani::unwind(9)]
    fn pool_iter_contract_0slabs() {
        iter_contract(0);
    }
    #[kani::proof]
    #[kani::unwind(9)]
    fn pool_iter_contract_1slab() {
        iter_contract(1);
    }
    #[kani::proof]
    #[kani::unwind(9)]
    fn pool_iter_contract_2slabs() {
        iter_contract(2);
    }
    #[kani::proof]
    #[kani::unwind(9)]
    fn pool_iter_contract_3slabs() {
        iter_contract(3);
    }
}
