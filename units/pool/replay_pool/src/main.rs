//! Native search for a failing input of the REAL RawOpaquePool (public API, path dependency on the staged
//! repository): model-based random histories of insert / remove / remove_unpin / reserve / shrink_to_fit / iterate,
//! with payloads large enough that a slab holds only 32 objects (so histories cross slab boundaries), drop
//! counting, and destructors / init closures that panic. Prints FAILING-INPUT lines.
use std::cell::Cell;
use std::collections::HashSet;
use std::mem::MaybeUninit;
use std::panic::{catch_unwind, AssertUnwindSafe};

use infinity_pool::{RawOpaquePool, RawPooledMut};

thread_local! {
    static DROPS: Cell<u64> = const { Cell::new(0) };
    static PANIC_ON_DROP_ID: Cell<u64> = const { Cell::new(u64::MAX) };
}

/// 40 KiB payload: 16 KiB minimum slab bytes / 1 MiB max => capacity is the minimum, 32 objects per slab.
#[repr(align(64))]
struct Big {
    id: u64,
    check: u64,
    _pad: [u8; 40_000],
}
impl Drop for Big {
    fn drop(&mut self) {
        DROPS.with(|d| d.set(d.get() + 1));
        if PANIC_ON_DROP_ID.with(Cell::get) == self.id {
            PANIC_ON_DROP_ID.with(|p| p.set(u64::MAX));
            panic!("destructor panics (by design of the search)");
        }
    }
}

struct Lcg(u64);
impl Lcg {
    fn next(&mut self) -> u64 {
        self.0 = self.0.wrapping_mul(6364136223846793005).wrapping_add(1442695040888963407);
        self.0 >> 33
    }
}

struct Live {
    handle: RawPooledMut<Big>,
    id: u64,
    addr: usize,
}

fn check(pool: &RawOpaquePool, live: &[Live], trace: &[String], slab_cap: usize) -> Option<String> {
    let t = || trace[trace.len().saturating_sub(12)..].join(" ");
    if pool.len() != live.len() {
        return Some(format!("len() = {} but {} objects are alive; last ops: {}", pool.len(), live.len(), t()));
    }
    if pool.is_empty() != live.is_empty() {
        return Some(format!("is_empty() disagrees with the live set; last ops: {}", t()));
    }
    if pool.capacity() < pool.len() {
        return Some(format!("capacity() {} < len() {}; last ops: {}", pool.capacity(), pool.len(), t()));
    }
    if pool.capacity() % slab_cap != 0 {
        return Some(format!("capacity() {} is not a multiple of the slab capacity {slab_cap}; last ops: {}", pool.capacity(), t()));
    }
    // addresses stable, aligned, distinct; values intact
    let mut seen = HashSet::new();
    for l in live {
        let p = l.handle.ptr().as_ptr();
        if p as usize != l.addr {
            return Some(format!("object {} moved; last ops: {}", l.id, t()));
        }
        if p as usize % 64 != 0 {
            return Some(format!("object {} misaligned; last ops: {}", l.id, t()));
        }
        let (id, chk) = unsafe { ((*p).id, (*p).check) };
        if id != l.id || chk != !l.id {
            return Some(format!("object {} reads back wrong contents (id {id}); last ops: {}", l.id, t()));
        }
        if !seen.insert(l.addr) {
            return Some(format!("two live objects share address {:#x}; last ops: {}", l.addr, t()));
        }
    }
    // iteration yields each live object's address exactly once, forwards and backwards
    let fwd = catch_unwind(AssertUnwindSafe(|| pool.iter().map(|p| p.as_ptr() as usize).collect::<Vec<_>>()));
    let bwd = catch_unwind(AssertUnwindSafe(|| pool.iter().rev().map(|p| p.as_ptr() as usize).collect::<Vec<_>>()));
    match (fwd, bwd) {
        (Ok(f), Ok(mut b)) => {
            b.reverse();
            let fs: HashSet<usize> = f.iter().copied().collect();
            if f.len() != live.len() || fs != seen || f != b {
                return Some(format!("iteration yields {} addresses for {} live objects (or forwards != reverse of backwards); last ops: {}", f.len(), live.len(), t()));
            }
        }
        _ => return Some(format!("iteration panicked; last ops: {}", t())),
    }
    None
}

fn run(seed: u64, steps: usize) -> Option<String> {
    let mut rng = Lcg(seed);
    let mut pool = RawOpaquePool::with_layout_of::<Big>();
    let mut live: Vec<Live> = Vec::new();
    let mut next_id = 1u64;
    let mut trace: Vec<String> = Vec::new();
    let mut expected_drops = 0u64;
    DROPS.with(|d| d.set(0));
    let slab_cap = 32usize;
    let mut reserved_room: Option<(usize, usize)> = None; // (capacity at reserve time, len+n promised)
    for _ in 0..steps {
        let op = rng.next() % 16;
        match op {
            0..=6 => {
                // burst of inserts (crosses slab boundaries)
                let n = 1 + rng.next() % 20;
                for _ in 0..n {
                    let id = next_id;
                    next_id += 1;
                    let panic_in_init = rng.next() % 97 == 0;
                    let cap_before = pool.capacity();
                    let len_before = pool.len();
                    let r = catch_unwind(AssertUnwindSafe(|| unsafe {
                        pool.insert_with(|u: &mut MaybeUninit<Big>| {
                            if panic_in_init {
                                panic!("init closure panics (by design of the search)");
                            }
                            let p = u.as_mut_ptr();
                            (&raw mut (*p).id).write(id);
                            (&raw mut (*p).check).write(!id);
                        })
                    }));
                    match r {
                        Ok(h) => {
                            trace.push(format!("insert#{id}"));
                            if let Some((cap, promised)) = reserved_room {
                                if len_before < promised && pool.capacity() != cap.max(cap_before) && pool.capacity() > cap_before {
                                    return Some(format!("pool grew from {cap_before} to {} although reserve() had promised room up to len {promised}; last ops: {}", pool.capacity(), trace[trace.len().saturating_sub(8)..].join(" ")));
                                }
                            }
                            let addr = h.ptr().as_ptr() as usize;
                            live.push(Live { handle: h, id, addr });
                        }
                        Err(_) => trace.push(format!("insert#{id}!init-panic")),
                    }
                }
            }
            7..=10 if !live.is_empty() => {
                let n = 1 + rng.next() % 25;
                for _ in 0..n {
                    if live.is_empty() {
                        break;
                    }
                    // bias: empty whole slabs from the front sometimes
                    let i = if rng.next() % 3 == 0 { 0 } else { (rng.next() as usize) % live.len() };
                    let l = live.swap_remove(i);
                    if rng.next() % 5 == 0 {
                        trace.push(format!("remove_unpin#{}", l.id));
                        let v = unsafe { pool.remove_unpin(l.handle) };
                        if v.id != l.id {
                            return Some(format!("remove_unpin returned object {} instead of {}", v.id, l.id));
                        }
                        std::mem::forget(v);
                    } else {
                        let panic_drop = rng.next() % 53 == 0;
                        if panic_drop {
                            PANIC_ON_DROP_ID.with(|p| p.set(l.id));
                        }
                        trace.push(format!("remove#{}{}", l.id, if panic_drop { "!drop-panic" } else { "" }));
                        let _ = catch_unwind(AssertUnwindSafe(|| unsafe { pool.remove(l.handle) }));
                        expected_drops += 1;
                    }
                    reserved_room = None;
                }
            }
            11 => {
                let n = (rng.next() % 70) as usize;
                trace.push(format!("reserve({n})"));
                pool.reserve(n);
                if pool.capacity() < pool.len() + n {
                    return Some(format!("after reserve({n}) capacity {} < len {} + {n}", pool.capacity(), pool.len()));
                }
                reserved_room = Some((pool.capacity(), pool.len() + n));
            }
            12 => {
                trace.push("shrink_to_fit".to_string());
                pool.shrink_to_fit();
                reserved_room = None;
            }
            _ => {}
        }
        if DROPS.with(Cell::get) != expected_drops {
            return Some(format!("{} destructors ran, expected {expected_drops}; last ops: {}", DROPS.with(Cell::get), trace[trace.len().saturating_sub(12)..].join(" ")));
        }
        if let Some(m) = check(&pool, &live, &trace, slab_cap) {
            return Some(m);
        }
    }
    // dropping the pool destroys exactly the live objects
    let remaining = live.len() as u64;
    drop(pool);
    if DROPS.with(Cell::get) != expected_drops + remaining {
        return Some(format!("dropping the pool ran {} destructors, expected {remaining}", DROPS.with(Cell::get) - expected_drops));
    }
    None
}

fn insert_ok(pool: &mut RawOpaquePool, id: u64) -> RawPooledMut<Big> {
    unsafe {
        pool.insert_with(|u: &mut MaybeUninit<Big>| {
            let p = u.as_mut_ptr();
            (&raw mut (*p).id).write(id);
            (&raw mut (*p).check).write(!id);
        })
    }
}

/// Scripted boundary scenarios (slab capacity is 32 for `Big`): each returns a description of what went wrong.
fn scripted() -> Vec<String> {
    let mut out = Vec::new();
    // S1: three slabs, empty the FIRST one completely, shrink: survivors must stay alive at their addresses
    {
        DROPS.with(|d| d.set(0));
        let mut pool = RawOpaquePool::with_layout_of::<Big>();
        let hs: Vec<_> = (0..96u64).map(|i| insert_ok(&mut pool, i)).collect();
        let mut it = hs.into_iter();
        for _ in 0..32 {
            unsafe { pool.remove(it.next().unwrap()) };
        }
        let rest: Vec<_> = it.collect();
        let before = DROPS.with(Cell::get);
        pool.shrink_to_fit();
        if DROPS.with(Cell::get) != before {
            out.push(format!("S1 fill 96, remove the first 32 (slab 0), shrink_to_fit(): {} live objects were destroyed", DROPS.with(Cell::get) - before));
        } else if pool.len() != 64 || pool.iter().count() != 64 {
            out.push("S1 fill 96, remove the first 32, shrink_to_fit(): len / iteration no longer describe the 64 live objects".to_string());
        }
        std::mem::forget(rest);
        std::mem::forget(pool);
    }
    // S2: exactly full slab, extract one by value, reserve(1), insert: must not grow
    {
        let mut pool = RawOpaquePool::with_layout_of::<Big>();
        let mut hs: Vec<_> = (0..32u64).map(|i| insert_ok(&mut pool, i)).collect();
        let v = unsafe { pool.remove_unpin(hs.pop().unwrap()) };
        std::mem::forget(v);
        pool.reserve(1);
        let cap = pool.capacity();
        let r = catch_unwind(AssertUnwindSafe(|| insert_ok(&mut pool, 99)));
        match r {
            Ok(h) => {
                if pool.capacity() != cap {
                    out.push(format!("S2 fill 32 (one slab), remove_unpin one, reserve(1), insert: capacity grew from {cap} to {}", pool.capacity()));
                }
                std::mem::forget(h);
            }
            Err(_) => out.push("S2 fill 32, remove_unpin one, reserve(1), insert: the insert panicked".to_string()),
        }
        std::mem::forget(hs);
        std::mem::forget(pool);
    }
    // S3: 31 of 32 slots used, an init closure panics, then a normal insert: must reuse the free slot
    {
        let mut pool = RawOpaquePool::with_layout_of::<Big>();
        let hs: Vec<_> = (0..31u64).map(|i| insert_ok(&mut pool, i)).collect();
        let _ = catch_unwind(AssertUnwindSafe(|| unsafe { pool.insert_with(|_u: &mut MaybeUninit<Big>| panic!("init closure panics")) }));
        let cap = pool.capacity();
        let r = catch_unwind(AssertUnwindSafe(|| insert_ok(&mut pool, 99)));
        match r {
            Ok(h) => {
                if pool.capacity() != cap || pool.len() != 32 {
                    out.push(format!("S3 fill 31, panicking init closure on the last vacant slot, insert: capacity {} (was {cap}), len {}", pool.capacity(), pool.len()));
                }
                std::mem::forget(h);
            }
            Err(_) => out.push("S3 fill 31, panicking init closure on the last vacant slot, then insert: the insert panicked".to_string()),
        }
        std::mem::forget(hs);
        std::mem::forget(pool);
    }
    // S4: exactly full slab, remove an object whose destructor panics, then insert: the vacated slot must be reused
    {
        let mut pool = RawOpaquePool::with_layout_of::<Big>();
        let mut hs: Vec<_> = (0..32u64).map(|i| insert_ok(&mut pool, i)).collect();
        let victim = hs.pop().unwrap();
        PANIC_ON_DROP_ID.with(|p| p.set(31));
        let _ = catch_unwind(AssertUnwindSafe(|| unsafe { pool.remove(victim) }));
        let cap = pool.capacity();
        let len_ok = pool.len() == 31 && pool.iter().count() == 31;
        let r = catch_unwind(AssertUnwindSafe(|| insert_ok(&mut pool, 99)));
        match r {
            Ok(h) => {
                if pool.capacity() != cap || !len_ok || pool.len() != 32 {
                    out.push(format!("S4 fill 32, remove one whose destructor panics, insert: capacity {} (was {cap}), len {}, accounting after the panic ok = {len_ok}", pool.capacity(), pool.len()));
                }
                std::mem::forget(h);
            }
            Err(_) => out.push("S4 fill 32 (full slab), remove one whose destructor panics, then insert: the insert panicked".to_string()),
        }
        std::mem::forget(hs);
        std::mem::forget(pool);
    }
    out
}

fn main() {
    std::panic::set_hook(Box::new(|_| {}));
    let mut failures = 0;
    let mut runs = 0u32;
    for msg in scripted() {
        failures += 1;
        println!("FAILING-INPUT {msg}");
    }
    if failures > 0 {
        println!("runs=scripted failures={failures}");
        return;
    }
    for seed in 0..60u64 {
        runs += 1;
        match catch_unwind(|| run(seed * 7 + 1, 80)) {
            Ok(None) => {}
            Ok(Some(msg)) => {
                failures += 1;
                println!("FAILING-INPUT seed={seed}: {}", &msg[..msg.len().min(700)]);
            }
            Err(_) => {
                failures += 1;
                println!("FAILING-INPUT seed={seed}: a pool operation panicked");
            }
        }
        if failures >= 3 {
            break;
        }
    }
    println!("runs={runs} failures={failures}");
}
