// Single-file Kani unit: the slab-count arithmetic of RawOpaquePool::shrink_to_fit, cut out of
// /repo on every run. The regions only look at `self.slabs[i].is_empty()`, `self.slabs.len()`, `self.len()`,
// `self.capacity()` and the slab capacity, so they are verified over stand-in types that offer exactly those
// observers (declared below); everything the regions then *do* with the numbers (Vec::truncate / extend,
// VacancyTracker::update_slab_count) is covered by the in-crate pool harnesses and the Verus vacancy unit.
use std::num::NonZero;

pub struct Slab {
    count: usize,
}
impl Slab {
    pub fn is_empty(&self) -> bool {
        self.count == 0
    }
}
pub struct SlabLayoutStub {
    capacity: NonZero<usize>,
}
impl SlabLayoutStub {
    pub fn capacity(&self) -> NonZero<usize> {
        self.capacity
    }
}
pub struct PoolStub {
    slabs: Vec<Slab>,
    slab_layout: SlabLayoutStub,
    length: usize,
}
impl PoolStub {
    fn len(&self) -> usize {
        self.length
    }
//@ extract fn packages/infinity_pool/src/opaque/pool_raw.rs RawOpaquePool::capacity
//@ end

//@ extract block packages/infinity_pool/src/opaque/pool_raw.rs RawOpaquePool::shrink_to_fit from "let new_len = self"
//@ wrap
    fn shrink_new_len(&self) -> usize
//@ epilogue
        new_len
//@ end

}

#[cfg(kani)]
mod harness {
    use super::*;

    fn any_pool(n: usize) -> PoolStub {
        let mut slabs = Vec::with_capacity(n);
        let cap: usize = kani::any();
        kani::assume(cap >= 1 && cap <= 16_384);
        let mut total = 0usize;
        let mut i = 0;
        while i < n {
            let c: usize = kani::any();
            kani::assume(c <= cap);
            total += c;
            slabs.push(Slab { count: c });
            i += 1;
        }
        PoolStub { slabs, slab_layout: SlabLayoutStub { capacity: NonZero::new(cap).unwrap() }, length: total }
    }

    /// shrink_to_fit keeps exactly the slabs up to and including the LAST non-empty one: only trailing empty
    /// slabs are given up, a slab holding live objects is never dropped.
    fn shrink_new_len_contract(n: usize) {
        let p = any_pool(n);
        let new_len = p.shrink_new_len();
        assert!(new_len <= n, "C01.shrink_new_len_in_range");
        let mut i = 0;
        while i < n {
            if i >= new_len {
                assert!(p.slabs[i].is_empty(), "C01.shrink_removes_only_empty_slabs");
            }
            i += 1;
        }
        assert!(new_len == 0 || !p.slabs[new_len - 1].is_empty(), "C02.shrink_removes_all_trailing_empty_slabs");
        kani::cover!(n >= 3 && new_len == 2 && p.slabs[0].is_empty());
    }

    #[kani::proof]
    #[kani::unwind(7)]
    fn shrink_new_len_contract_n0_to_4() {
        let n: usize = kani::any();
        kani::assume(n <= 4);
        // concrete sizes per path (symbolic Vec lengths are intractable)
        if n == 0 { shrink_new_len_contract(0) } else if n == 1 { shrink_new_len_contract(1) } else if n == 2 { shrink_new_len_contract(2) } else if n == 3 { shrink_new_len_contract(3) } else { shrink_new_len_contract(4) }
    }
}
fn main() {}
