//! Native search for a failing input of the REAL handle layer and pool front-ends of infinity_pool (public API, path
//! dependency on the staged repository): the release paths and blind-pool routing of units/pool/handles.kspec.rs,
//! executed on the real pools with drop counting; panics in init / iteration closures followed by further use of the
//! pool; and the object graphs of property C04 (a pooled object owning a handle into its own pool), each on its own
//! thread under a watchdog because the thread-safe variants deadlock. Prints FAILING-INPUT lines for everything
//! except the nested-drop programs, which print NESTED-DROP lines (they are the listed known finding of C04).
use std::fmt::Debug;
use std::mem::MaybeUninit;
use std::panic::{AssertUnwindSafe, catch_unwind};
use std::sync::atomic::{AtomicU32, Ordering};
use std::sync::mpsc;
use std::time::Duration;

use infinity_pool::*;

static DROPS: [AtomicU32; 8] = [const { AtomicU32::new(0) }; 8];
fn drops(i: usize) -> u32 {
    DROPS[i].load(Ordering::SeqCst)
}
fn reset() {
    for d in &DROPS {
        d.store(0, Ordering::SeqCst);
    }
}
#[derive(Debug)]
struct Counted {
    id: u8,
    pad: u32,
}
impl Drop for Counted {
    fn drop(&mut self) {
        DROPS[self.id as usize].fetch_add(1, Ordering::SeqCst);
    }
}
#[derive(Debug)]
struct Big {
    id: u8,
    x: u64,
}
impl Drop for Big {
    fn drop(&mut self) {
        DROPS[self.id as usize].fetch_add(1, Ordering::SeqCst);
    }
}
trait Speak {
    fn id(&self) -> u8;
}
impl Speak for Counted {
    fn id(&self) -> u8 {
        self.id
    }
}

/// Runs `f` on its own thread; reports a panic or a hang (5 s) as Err.
fn guarded<F: FnOnce() -> Result<(), String> + Send + 'static>(f: F) -> Result<(), String> {
    let (tx, rx) = mpsc::channel();
    std::thread::spawn(move || {
        let r = catch_unwind(AssertUnwindSafe(f));
        let _ = tx.send(match r {
            Ok(r) => r,
            Err(p) => Err(format!(
                "panicked: {}",
                p.downcast_ref::<String>().cloned().or_else(|| p.downcast_ref::<&str>().map(|s| (*s).to_string())).unwrap_or_default()
            )),
        });
    });
    match rx.recv_timeout(Duration::from_secs(5)) {
        Ok(r) => r,
        Err(_) => Err("did not terminate within 5 s (deadlock)".to_string()),
    }
}
fn say(s: &str) {
    use std::io::Write;
    println!("{s}");
    let _ = std::io::stdout().flush();
}
fn ensure(c: bool, what: &str) -> Result<(), String> {
    if c { Ok(()) } else { Err(what.to_string()) }
}

macro_rules! release_ways {
    ($family:literal, $pool:expr, $mut_dyn:ty, $out:ident) => {
        for way in 0..6u8 {
            for flip in [false, true] {
                reset();
                let r = guarded(move || {
                    let pool = $pool;
                    let other = pool.insert(Counted { id: 1, pad: 9 });
                    let h = pool.insert(Counted { id: 0, pad: 5 });
                    let addr = h.ptr().as_ptr() as usize;
                    ensure(pool.len() == 2 && drops(0) == 0 && h.pad == 5, "after insert")?;
                    match way {
                        0 => drop(h),
                        1 => {
                            let s = h.into_shared();
                            ensure(s.ptr().as_ptr() as usize == addr, "into_shared moved the object")?;
                            let s2 = s.clone();
                            let s3 = s2.clone();
                            if flip {
                                drop(s);
                                drop(s3);
                                ensure(drops(0) == 0 && pool.len() == 2 && s2.pad == 5, "destroyed before the last shared handle went")?;
                                drop(s2);
                            } else {
                                drop(s3);
                                drop(s2);
                                ensure(drops(0) == 0 && pool.len() == 2 && s.pad == 5, "destroyed before the last shared handle went")?;
                                drop(s);
                            }
                        }
                        2 => {
                            let e = h.erase();
                            ensure(e.ptr().as_ptr() as usize == addr && drops(0) == 0, "erase")?;
                            drop(e);
                        }
                        3 => {
                            let v = h.into_inner();
                            ensure(drops(0) == 0 && pool.len() == 1 && v.pad == 5, "into_inner destroyed or lost the value")?;
                            drop(v);
                        }
                        4 => {
                            // SAFETY: the cast returns a reference to the same object.
                            let d: $mut_dyn = unsafe { h.__private_cast_dyn_with_fn(|x| x as &mut dyn Speak) };
                            ensure(d.ptr().cast::<u8>().as_ptr() as usize == addr && d.id() == 0 && drops(0) == 0, "dyn cast")?;
                            if flip {
                                drop(d);
                            } else {
                                let s = d.into_shared();
                                let s2 = s.clone();
                                drop(s);
                                ensure(drops(0) == 0 && s2.id() == 0, "shared dyn")?;
                                drop(s2);
                            }
                        }
                        _ => {
                            let s = h.into_shared();
                            let e = s.clone().erase();
                            drop(s);
                            ensure(drops(0) == 0 && pool.len() == 2, "shared + erase")?;
                            drop(e);
                        }
                    }
                    ensure(drops(0) == 1, &format!("object destroyed {} times instead of once", drops(0)))?;
                    ensure(drops(1) == 0 && other.pad == 9 && pool.len() == 1, "the other object was disturbed / len wrong")?;
                    drop(other);
                    ensure(drops(1) == 1 && pool.is_empty(), "pool not empty at the end")
                });
                if let Err(e) = r {
                    say(&format!("FAILING-INPUT {} release way={way} flip={flip}: {e}", $family));
                    $out += 1;
                }
            }
        }
    };
}

macro_rules! blind_routing {
    ($family:literal, $pool:expr, $out:ident) => {
        for order in 0..6u8 {
            reset();
            let r = guarded(move || {
                let pool = $pool;
                let a = pool.insert(Counted { id: 0, pad: 1 });
                let b = pool.insert(Big { id: 1, x: 2 });
                let c = pool.insert(Counted { id: 2, pad: 3 });
                ensure(pool.len() == 3 && a.pad == 1 && b.x == 2 && c.pad == 3, "after inserts")?;
                ensure((a.ptr().as_ptr() as usize) % align_of::<Counted>() == 0 && (b.ptr().as_ptr() as usize) % align_of::<Big>() == 0, "misaligned object")?;
                match order {
                    0 => { drop(a); drop(b); drop(c); }
                    1 => { drop(a); drop(c); drop(b); }
                    2 => { drop(b); drop(a); ensure(c.pad == 3 && pool.len() == 1, "c disturbed")?; drop(c); }
                    3 => { drop(b); drop(c); ensure(a.pad == 1 && pool.len() == 1, "a disturbed")?; drop(a); }
                    4 => { drop(c); let bs = b.into_shared(); let b2 = bs.clone(); drop(bs); ensure(b2.x == 2 && drops(1) == 0, "b early")?; drop(a); drop(b2); }
                    _ => { let v = c.into_inner(); ensure(v.pad == 3 && drops(2) == 0 && pool.len() == 2, "into_inner")?; drop(v); drop(b.erase()); drop(a); }
                }
                ensure(drops(0) == 1 && drops(1) == 1 && drops(2) == 1, "not destroyed exactly once")?;
                ensure(pool.is_empty(), "pool not empty")?;
                pool.shrink_to_fit();
                let again = pool.insert(Big { id: 3, x: 7 });
                ensure(again.x == 7 && pool.len() == 1, "reuse after shrink")
            });
            if let Err(e) = r {
                say(&format!("FAILING-INPUT {} routing order={order}: {e}", $family));
                $out += 1;
            }
        }
    };
}

struct LocalNodeU {
    _child: Option<LocalPooledMut<LocalNodeU>>,
}
struct LocalNodeS {
    _child: Option<LocalPooled<LocalNodeS>>,
}
struct NodeU {
    _child: Option<PooledMut<NodeU>>,
}
struct NodeS {
    _child: Option<Pooled<NodeS>>,
}
struct BlindLocalNode {
    _child: LocalBlindPooledMut<u64>,
}
struct BlindNode {
    _child: BlindPooledMut<u64>,
}

fn main() {
    let mut bad = 0u32;
    release_ways!("LocalOpaquePool", LocalOpaquePool::with_layout_of::<Counted>(), LocalPooledMut<dyn Speak>, bad);
    release_ways!("OpaquePool", OpaquePool::with_layout_of::<Counted>(), PooledMut<dyn Speak>, bad);
    release_ways!("LocalBlindPool", LocalBlindPool::new(), LocalBlindPooledMut<dyn Speak>, bad);
    release_ways!("BlindPool", BlindPool::new(), BlindPooledMut<dyn Speak>, bad);
    release_ways!("LocalPinnedPool", LocalPinnedPool::<Counted>::new(), LocalPooledMut<dyn Speak>, bad);
    release_ways!("PinnedPool", PinnedPool::<Counted>::new(), PooledMut<dyn Speak>, bad);
    blind_routing!("LocalBlindPool", LocalBlindPool::new(), bad);
    blind_routing!("BlindPool", BlindPool::new(), bad);

    // user code panics inside a managed pool, then the pool is used again
    for which in 0..6u8 {
        let r = guarded(move || {
            // handles that outlive the panic are never dropped: with a poisoned lock their Drop would panic during
            // an unwind and abort the search
            fn after<P: Send + 'static>(pool: P, len: fn(&P) -> usize, insert: fn(&P) -> u64) -> Result<(), String> {
                let pool = std::mem::ManuallyDrop::new(pool);
                match catch_unwind(AssertUnwindSafe(|| len(&pool))) {
                    Err(_) => return Err("len() panics after the user closure panicked (pool lock poisoned)".to_string()),
                    Ok(n) => ensure(n == 1, &format!("len() = {n} after the panic, 1 object is alive"))?,
                }
                match catch_unwind(AssertUnwindSafe(|| insert(&pool))) {
                    Err(_) => Err("insert() panics after the user closure panicked".to_string()),
                    Ok(v) => ensure(v == 3 && len(&pool) == 2, "insert after the panic"),
                }
            }
            match which {
                0 | 1 | 2 => {
                    let pool = OpaquePool::with_layout_of::<u64>();
                    let keep = std::mem::ManuallyDrop::new(pool.insert(9_u64));
                    let p2 = pool.clone();
                    let caught = catch_unwind(AssertUnwindSafe(move || {
                        let p2 = std::mem::ManuallyDrop::new(p2);
                        // SAFETY: never completes.
                        unsafe {
                            match which {
                                0 => std::mem::forget(p2.insert_with(|_s: &mut MaybeUninit<u64>| panic!("init closure panics"))),
                                1 => std::mem::forget(p2.insert_with_unchecked(|_s: &mut MaybeUninit<u64>| panic!("init closure panics"))),
                                _ => p2.with_iter(|_it| -> () { panic!("iteration closure panics") }),
                            }
                        }
                    }));
                    ensure(caught.is_err(), "the panic was swallowed")?;
                    ensure(**keep == 9, "object disturbed")?;
                    after(pool, |p| p.len(), |p| {
                        let h = std::mem::ManuallyDrop::new(p.insert(3_u64));
                        **h
                    })
                }
                4 | 5 => {
                    let pool = PinnedPool::<u64>::new();
                    let keep = std::mem::ManuallyDrop::new(pool.insert(9_u64));
                    let p2 = pool.clone();
                    let caught = catch_unwind(AssertUnwindSafe(move || {
                        let p2 = std::mem::ManuallyDrop::new(p2);
                        // SAFETY: never completes.
                        unsafe {
                            if which == 4 {
                                std::mem::forget(p2.insert_with(|_s: &mut MaybeUninit<u64>| panic!("init closure panics")));
                            } else {
                                p2.with_iter(|_it| -> () { panic!("iteration closure panics") });
                            }
                        }
                    }));
                    ensure(caught.is_err(), "the panic was swallowed")?;
                    ensure(**keep == 9, "object disturbed")?;
                    after(pool, |p| p.len(), |p| {
                        let h = std::mem::ManuallyDrop::new(p.insert(3_u64));
                        **h
                    })
                }
                _ => {
                    let pool = BlindPool::new();
                    let keep = std::mem::ManuallyDrop::new(pool.insert(9_u64));
                    let p2 = pool.clone();
                    let caught = catch_unwind(AssertUnwindSafe(move || {
                        let p2 = std::mem::ManuallyDrop::new(p2);
                        // SAFETY: never completes.
                        let h = unsafe { p2.insert_with(|_s: &mut MaybeUninit<u64>| panic!("init closure panics")) };
                        std::mem::forget(h);
                    }));
                    ensure(caught.is_err(), "the panic was swallowed")?;
                    ensure(**keep == 9, "object disturbed")?;
                    after(pool, |p| p.len(), |p| {
                        let h = std::mem::ManuallyDrop::new(p.insert(3_u64));
                        **h
                    })
                }
            }
        });
        if let Err(e) = r {
            say(&format!("FAILING-INPUT managed pool, user closure #{which} (0 insert_with, 1 insert_with_unchecked, 2 with_iter, 3 BlindPool::insert_with, 4 PinnedPool::insert_with, 5 PinnedPool::with_iter) panics, pool used again: {e}"));
            bad += 1;
        }
    }

    // C04 object graphs (listed known finding): report, do not count as a new failing input
    let nested: Vec<(&str, Box<dyn FnOnce() -> Result<(), String> + Send>)> = vec![
        ("LocalPooledMut (handles/local_mut.rs Drop)", Box::new(|| {
            let pool = LocalOpaquePool::with_layout_of::<LocalNodeU>();
            let leaf = pool.insert(LocalNodeU { _child: None });
            let owner = pool.insert(LocalNodeU { _child: Some(leaf) });
            drop(owner);
            ensure(pool.is_empty(), "pool not empty")
        })),
        ("LocalPooled (handles/local.rs Remover::drop)", Box::new(|| {
            let pool = LocalOpaquePool::with_layout_of::<LocalNodeS>();
            let leaf = pool.insert(LocalNodeS { _child: None }).into_shared();
            let owner = pool.insert(LocalNodeS { _child: Some(leaf) }).into_shared();
            drop(owner);
            ensure(pool.is_empty(), "pool not empty")
        })),
        ("PooledMut (handles/managed_mut.rs Drop)", Box::new(|| {
            let pool = OpaquePool::with_layout_of::<NodeU>();
            let leaf = pool.insert(NodeU { _child: None });
            let owner = pool.insert(NodeU { _child: Some(leaf) });
            drop(owner);
            ensure(pool.is_empty(), "pool not empty")
        })),
        ("Pooled (handles/managed.rs Remover::drop)", Box::new(|| {
            let pool = OpaquePool::with_layout_of::<NodeS>();
            let leaf = pool.insert(NodeS { _child: None }).into_shared();
            let owner = pool.insert(NodeS { _child: Some(leaf) }).into_shared();
            drop(owner);
            ensure(pool.is_empty(), "pool not empty")
        })),
        ("LocalBlindPooledMut (handles/blind_local_mut.rs Drop)", Box::new(|| {
            let pool = LocalBlindPool::new();
            let leaf = pool.insert(5_u64);
            let owner = pool.insert(BlindLocalNode { _child: leaf });
            drop(owner);
            ensure(pool.is_empty(), "pool not empty")
        })),
        ("BlindPooledMut (handles/blind_managed_mut.rs Drop)", Box::new(|| {
            let pool = BlindPool::new();
            let leaf = pool.insert(5_u64);
            let owner = pool.insert(BlindNode { _child: leaf });
            drop(owner);
            ensure(pool.is_empty(), "pool not empty")
        })),
    ];
    for (site, f) in nested {
        match guarded(f) {
            Ok(()) => say(&format!("NESTED-DROP ok: {site}")),
            Err(e) => say(&format!("NESTED-DROP fails: dropping a pooled object that owns a handle into the same pool, {site}: {e}")),
        }
    }
    say(&format!("replay_handles: {bad} failing inputs"));
}
