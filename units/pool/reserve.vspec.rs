// Verus unit: the slab-count arithmetic of RawOpaquePool::reserve for EVERY len / additional / slab capacity /
// slab count. The observers of `self` are replaced by parameters (declared local rewrites); what reserve then
// does with the number (Vec::extend with that many new slabs, VacancyTracker::update_slab_count) is covered by the
// in-crate pool harnesses and the Verus vacancy unit.
use vstd::prelude::*;
use vstd::arithmetic::div_mod::*;
use vstd::arithmetic::mul::*;
verus! {
global size_of usize == 8;

pub assume_specification[ usize::div_ceil ](a: usize, b: usize) -> (r: usize)
    requires b != 0,
    ensures r as int == (if a % b == 0 { (a / b) as int } else { a / b + 1 });

//@ extract block packages/infinity_pool/src/opaque/pool_raw.rs RawOpaquePool::reserve from "let required_capacity = self" to "let additional_slabs = required_slabs.saturating_sub(current_slabs);"
//@ wrap
fn reserve_additional_slabs(len: usize, slab_capacity: usize, slab_count: usize, additional: usize) -> (r: usize)
    requires
        slab_capacity >= 1,
        len + additional <= usize::MAX,           // otherwise reserve panics ("exceeds size of virtual memory")
        slab_count * slab_capacity <= usize::MAX, // capacity() does not wrap for a pool that exists
        len <= slab_count * slab_capacity,        // pool invariant: capacity >= len
    ensures
        // room for `additional` more without growth
        (slab_count + r) * slab_capacity >= len + additional,
        // no more slabs than needed
        r == 0 || (slab_count + r - 1) * slab_capacity < len + additional,
        // nothing is added when there is room already
        slab_count * slab_capacity >= len + additional ==> r == 0,
//@ rewrite-re "self\s*\.len\(\)" "len"
//@ rewrite "self.capacity()" "slab_count.wrapping_mul(slab_capacity)"
//@ rewrite "self.slabs.len()" "slab_count"
//@ rewrite "self.slab_layout.capacity().get()" "slab_capacity"
//@ rewrite "return;" "return 0;"
//@ before "if self.capacity() >= required_capacity {"
        proof {
            let w = slab_count.wrapping_mul(slab_capacity);
            assert(w as int == (slab_count as int * slab_capacity as int) % 0x1_0000_0000_0000_0000int);
            assert(w == slab_count * slab_capacity) by { lemma_small_mod((slab_count * slab_capacity) as nat, 0x1_0000_0000_0000_0000nat); }
        }
//@ epilogue
        proof {
            let req = required_capacity as int;
            let c = slab_capacity as int;
            let q = req / c;
            lemma_fundamental_div_mod(req, c);
            lemma_mod_bound(req, c);
            // required_slabs * c >= req  and (required_slabs - 1) * c < req
            assert(required_slabs as int * c >= req) by (nonlinear_arith)
                requires req == c * q + req % c, 0 <= req % c < c, required_slabs as int == (if req % c == 0 { q } else { q + 1 }), c >= 1;
            assert((required_slabs as int - 1) * c < req) by (nonlinear_arith)
                requires req == c * q + req % c, 0 <= req % c < c, required_slabs as int == (if req % c == 0 { q } else { q + 1 }), c >= 1, req > 0;
            // we only get here when capacity < required, so required_slabs > slab_count
            assert(required_slabs as int > slab_count as int) by (nonlinear_arith)
                requires required_slabs as int * c >= req, (slab_count as int) * c < req, c >= 1;
            assert(additional_slabs as int == required_slabs as int - slab_count as int);
            assert((slab_count as int + additional_slabs as int) * c >= req);
        }
        additional_slabs
//@ end

} // verus!
fn main() {}
