// Single-file Kani unit: the handle layer and the pool front-ends of infinity_pool, WHOLE FILES cut out of /repo on
// every run (`extract file`: everything except the #[cfg(test)] modules, the `use crate::..` imports and inner
// attributes), compiled against ONE stand-in: `RawOpaquePool`, written here as the executable form of the contract
// that unit pool's in-crate harnesses establish for the real RawOpaquePool:
//   requires  insert::<T>:  Layout::new::<T>() == the pool's object layout
//   requires  remove(h) / remove_unpin(h): h was issued by THIS pool, has not been removed, and still carries the
//             address and slot it was issued with
//   ensures   insert returns a fresh handle whose address never changes; remove runs the destructor exactly once;
//             remove_unpin moves the value out and does not run it; len() counts the live objects
// The `requires` are assertions in the stand-in: a caller in the handle layer / a blind-pool router that breaks one
// fails the harness (this is the modular step: the callers are checked against the callee's contract, not its body).
// The slab index field of a handle doubles as the ghost "issued by pool #id" tag.
#![allow(dead_code, unused_imports, unused_variables, unused_unsafe, clippy::all)]

use std::alloc::Layout;
use std::ptr::NonNull;

pub(crate) const NEVER_POISONED: &str = "we never panic while holding this lock";

// ------------------------------------------------------------------------------------------------------------------
// stand-in callee
pub const MAXOBJ: usize = 4;
#[derive(Clone, Copy, Debug)]
struct Rec {
    addr: usize,
    live: bool,
    /// the type-erased destructor captured at insert (the real pool's Dropper)
    dropper: unsafe fn(*mut ()),
}
unsafe fn drop_erased<T>(p: *mut ()) {
    // SAFETY: forwarded; p points at a live T.
    unsafe { std::ptr::drop_in_place(p.cast::<T>()) }
}
unsafe fn drop_nothing(_p: *mut ()) {}
static mut NEXT_POOL_ID: usize = 7;
/// Ghost state: how many raw pools exist per drop policy (by construction route; a pool's policy is fixed at creation).
pub static mut CREATED_MAY_DROP: usize = 0;
pub static mut CREATED_MUST_NOT_DROP: usize = 0;
#[derive(Debug)]
pub struct RawOpaquePool {
    id: usize,
    layout: Layout,
    recs: [Rec; MAXOBJ],
    n: usize,
    len: usize,
    pub shrink_calls: usize,
    pub reserved: usize,
    pub policy: DropPolicy,
}
/// std::panic::catch_unwind / resume_unwind. Kani does not model unwinding, so the contract is stated at the two
/// calls: catch_unwind either runs the closure to completion (Ok) or - when a harness asks for injected panics -
/// stands for "the user code inside panicked at once" (the closure is dropped unrun, Err is returned: the raw pool's
/// own roll-back on that path is established by the in-crate harnesses); resume_unwind requires that no pool lock is
/// held any more, because a guard dropped by the continuing unwind poisons the mutex and every later operation on
/// the pool would panic (property C04). The path ends there.
pub static mut GHOST_INJECT_PANICS: bool = false;
pub fn catch_unwind<F: FnOnce() -> R, R>(f: F) -> Result<R, Box<dyn std::any::Any + Send>> {
    // SAFETY: single-threaded harnesses.
    if unsafe { GHOST_INJECT_PANICS } && kani::any() {
        drop(f);
        return Err(Box::new(()));
    }
    Ok(f())
}
pub fn resume_unwind(_payload: Box<dyn std::any::Any + Send>) -> ! {
    // SAFETY: single-threaded harnesses.
    assert!(unsafe { GHOST_LOCKS_HELD } == 0, "resume_unwind requires: no pool lock is held when the panic continues (else the mutex is poisoned)");
    kani::assume(false);
    unreachable!()
}
pub struct RawOpaquePoolBuilder {
    layout: Option<Layout>,
    policy: DropPolicy,
}
impl RawOpaquePoolBuilder {
    pub fn drop_policy(mut self, p: DropPolicy) -> Self {
        self.policy = p;
        self
    }
    pub fn layout(mut self, l: Layout) -> Self {
        self.layout = Some(l);
        self
    }
    pub fn layout_of<T>(self) -> Self {
        self.layout(Layout::new::<T>())
    }
    pub fn build(self) -> RawOpaquePool {
        let mut p = RawOpaquePool::with_layout(self.layout.expect("layout"));
        p.policy = self.policy;
        if matches!(self.policy, DropPolicy::MustNotDropContents) {
            // SAFETY: single-threaded harnesses.
            unsafe {
                CREATED_MAY_DROP -= 1;
                CREATED_MUST_NOT_DROP += 1;
            }
        }
        p
    }
}
#[derive(Debug)]
pub struct RawOpaquePoolIterator<'p> {
    pool: &'p RawOpaquePool,
    next: usize,
}
impl Iterator for RawOpaquePoolIterator<'_> {
    type Item = NonNull<()>;
    fn next(&mut self) -> Option<NonNull<()>> {
        while self.next < self.pool.n {
            let r = self.pool.recs[self.next];
            self.next += 1;
            if r.live {
                return NonNull::new(r.addr as *mut ());
            }
        }
        None
    }
    fn size_hint(&self) -> (usize, Option<usize>) {
        (0, Some(self.pool.len))
    }
}
impl DoubleEndedIterator for RawOpaquePoolIterator<'_> {
    fn next_back(&mut self) -> Option<NonNull<()>> {
        None
    }
}
impl ExactSizeIterator for RawOpaquePoolIterator<'_> {
    fn len(&self) -> usize {
        self.pool.len
    }
}
impl std::iter::FusedIterator for RawOpaquePoolIterator<'_> {}

impl RawOpaquePool {
    pub fn builder() -> RawOpaquePoolBuilder {
        RawOpaquePoolBuilder { layout: None, policy: DropPolicy::default() }
    }
    pub fn with_layout(object_layout: Layout) -> Self {
        assert!(object_layout.size() > 0);
        // SAFETY: single-threaded harnesses.
        let id = unsafe {
            CREATED_MAY_DROP += 1;
            NEXT_POOL_ID += 1;
            NEXT_POOL_ID
        };
        Self { id, layout: object_layout, recs: [Rec { addr: 0, live: false, dropper: drop_nothing }; MAXOBJ], n: 0, len: 0, shrink_calls: 0, reserved: 0, policy: DropPolicy::default() }
    }
    pub fn with_layout_of<T: Sized>() -> Self {
        Self::with_layout(Layout::new::<T>())
    }
    pub fn object_layout(&self) -> Layout {
        self.layout
    }
    pub fn len(&self) -> usize {
        self.len
    }
    pub fn capacity(&self) -> usize {
        MAXOBJ
    }
    pub fn is_empty(&self) -> bool {
        self.len == 0
    }
    pub fn reserve(&mut self, additional: usize) {
        self.reserved += additional;
    }
    pub fn shrink_to_fit(&mut self) {
        self.shrink_calls += 1;
    }
    pub fn iter(&self) -> RawOpaquePoolIterator<'_> {
        RawOpaquePoolIterator { pool: self, next: 0 }
    }
    pub fn insert<T: 'static>(&mut self, value: T) -> RawPooledMut<T> {
        // SAFETY: as insert_unchecked, the requires is asserted there.
        unsafe { self.insert_unchecked(value) }
    }
    pub unsafe fn insert_unchecked<T: 'static>(&mut self, value: T) -> RawPooledMut<T> {
        // SAFETY: forwarded.
        unsafe {
            self.insert_with_unchecked(|slot: &mut std::mem::MaybeUninit<T>| {
                slot.write(value);
            })
        }
    }
    pub unsafe fn insert_with<T, F>(&mut self, f: F) -> RawPooledMut<T>
    where
        T: 'static,
        F: FnOnce(&mut std::mem::MaybeUninit<T>),
    {
        // SAFETY: forwarded.
        unsafe { self.insert_with_unchecked(f) }
    }
    pub unsafe fn insert_with_unchecked<T, F>(&mut self, f: F) -> RawPooledMut<T>
    where
        T: 'static,
        F: FnOnce(&mut std::mem::MaybeUninit<T>),
    {
        assert!(Layout::new::<T>() == self.layout, "requires: object layout == pool layout");
        assert!(self.n < MAXOBJ);
        let mut b: Box<std::mem::MaybeUninit<T>> = Box::new(std::mem::MaybeUninit::uninit());
        f(&mut b);
        let p: *mut T = Box::into_raw(b).cast::<T>();
        let k = self.n;
        self.recs[k] = Rec { addr: p as usize, live: true, dropper: drop_erased::<T> };
        self.n += 1;
        self.len += 1;
        RawPooledMut::new(self.id, SlabHandle::new(k, NonNull::new(p).expect("box")))
    }
    fn take_out<T: ?Sized>(&mut self, h: &RawPooled<T>) -> Rec {
        assert!(h.slab_index() == self.id, "requires: the handle was issued by this pool");
        let k = h.slab_handle().index();
        assert!(k < self.n, "requires: the handle names a slot of this pool");
        assert!(self.recs[k].live, "requires: the object has not been removed yet");
        assert!(h.ptr().cast::<u8>().as_ptr() as usize == self.recs[k].addr, "requires: the handle still carries the issued address");
        self.recs[k].live = false;
        self.len -= 1;
        self.recs[k]
    }
    pub unsafe fn remove<T: ?Sized>(&mut self, handle: impl Into<RawPooled<T>>) {
        let h: RawPooled<T> = handle.into();
        let rec = self.take_out(&h);
        // SAFETY: live object issued by this pool (asserted above); the dropper is the one captured at insert.
        unsafe { (rec.dropper)(rec.addr as *mut ()) };
    }
    pub unsafe fn remove_unpin<T: Unpin>(&mut self, handle: impl Into<RawPooled<T>>) -> T {
        let h: RawPooled<T> = handle.into();
        let _ = self.take_out(&h);
        // SAFETY: live object issued by this pool (asserted above).
        unsafe { h.ptr().as_ptr().read() }
    }
    /// ghost observers for the harnesses
    pub fn ghost_live(&self, k: usize) -> bool {
        self.recs[k].live
    }
    pub fn ghost_issued(&self) -> usize {
        self.n
    }
}

// ------------------------------------------------------------------------------------------------------------------
// stand-ins for two std dependencies (their contracts are assumed, stated here in executable form)
/// std::sync::Mutex as one thread sees it: lock() succeeds unless this thread already holds the lock (std: "might
/// panic or deadlock" - either way the operation does not terminate normally, which the harness reports) or the mutex
/// is poisoned; a guard dropped while a panic is in flight poisons it. GHOST_LOCKS_HELD counts guards alive.
pub static mut GHOST_LOCKS_HELD: usize = 0;
#[derive(Debug, Default)]
pub struct Mutex<T> {
    locked: std::cell::Cell<bool>,
    value: std::cell::UnsafeCell<T>,
}
// SAFETY: single-threaded harnesses; mirrors std's bounds.
unsafe impl<T: Send> Send for Mutex<T> {}
// SAFETY: as above.
unsafe impl<T: Send> Sync for Mutex<T> {}
impl<T> std::panic::UnwindSafe for Mutex<T> {}
impl<T> std::panic::RefUnwindSafe for Mutex<T> {}
#[derive(Debug)]
pub struct PoisonError;
pub struct MutexGuard<'a, T> {
    m: &'a Mutex<T>,
}
impl<T> Mutex<T> {
    pub fn new(value: T) -> Self {
        Self { locked: std::cell::Cell::new(false), value: std::cell::UnsafeCell::new(value) }
    }
    pub fn lock(&self) -> Result<MutexGuard<'_, T>, PoisonError> {
        assert!(!self.locked.get(), "Mutex::lock requires: not already locked by this thread (std deadlocks or panics)");
        self.locked.set(true);
        // SAFETY: single-threaded harnesses.
        unsafe { GHOST_LOCKS_HELD += 1 };
        Ok(MutexGuard { m: self })
    }
}
impl<T> std::ops::Deref for MutexGuard<'_, T> {
    type Target = T;
    fn deref(&self) -> &T {
        // SAFETY: the guard is the only access path while locked.
        unsafe { &*self.m.value.get() }
    }
}
impl<T> std::ops::DerefMut for MutexGuard<'_, T> {
    fn deref_mut(&mut self) -> &mut T {
        // SAFETY: the guard is the only access path while locked.
        unsafe { &mut *self.m.value.get() }
    }
}
impl<T> Drop for MutexGuard<'_, T> {
    fn drop(&mut self) {
        self.m.locked.set(false);
        // SAFETY: single-threaded harnesses.
        unsafe { GHOST_LOCKS_HELD -= 1 };
    }
}
impl<T: std::fmt::Debug> std::fmt::Debug for MutexGuard<'_, T> {
    fn fmt(&self, f: &mut std::fmt::Formatter<'_>) -> std::fmt::Result {
        f.write_str("MutexGuard")
    }
}

/// std::collections::BTreeMap restricted to what the blind pools use (entry().or_insert_with, get, get_mut, values,
/// values_mut, new/default): a map; iteration visits every entry once. Fixed capacity 3 (the harnesses use <= 3 layouts).
#[derive(Debug)]
pub struct BTreeMap<K, V> {
    slots: [Option<(K, V)>; 3],
}
impl<K, V> Default for BTreeMap<K, V> {
    fn default() -> Self {
        Self { slots: [None, None, None] }
    }
}
pub struct MapEntry<'a, K, V> {
    map: &'a mut BTreeMap<K, V>,
    key: K,
}
impl<K: PartialEq + Copy, V> BTreeMap<K, V> {
    pub fn new() -> Self {
        Self { slots: [None, None, None] }
    }
    fn position(&self, k: &K) -> Option<usize> {
        let mut i = 0;
        while i < 3 {
            if let Some((kk, _)) = &self.slots[i] {
                if *kk == *k {
                    return Some(i);
                }
            }
            i += 1;
        }
        None
    }
    pub fn get(&self, k: &K) -> Option<&V> {
        let i = self.position(k)?;
        self.slots[i].as_ref().map(|e| &e.1)
    }
    pub fn get_mut(&mut self, k: &K) -> Option<&mut V> {
        let i = self.position(k)?;
        self.slots[i].as_mut().map(|e| &mut e.1)
    }
    pub fn entry(&mut self, key: K) -> MapEntry<'_, K, V> {
        MapEntry { map: self, key }
    }
    pub fn values(&self) -> impl Iterator<Item = &V> {
        self.slots.iter().filter_map(|s| s.as_ref().map(|e| &e.1))
    }
    pub fn values_mut(&mut self) -> impl Iterator<Item = &mut V> {
        self.slots.iter_mut().filter_map(|s| s.as_mut().map(|e| &mut e.1))
    }
    pub fn len(&self) -> usize {
        self.values().count()
    }
}
impl<'a, K: PartialEq + Copy, V> MapEntry<'a, K, V> {
    pub fn or_insert_with<F: FnOnce() -> V>(self, f: F) -> &'a mut V {
        let i = match self.map.position(&self.key) {
            Some(i) => i,
            None => {
                let mut j = 0;
                while j < 3 && self.map.slots[j].is_some() {
                    j += 1;
                }
                assert!(j < 3, "stand-in map capacity");
                self.map.slots[j] = Some((self.key, f()));
                j
            }
        };
        &mut self.map.slots[i].as_mut().expect("present").1
    }
}

// ------------------------------------------------------------------------------------------------------------------
// the repository's files
mod m_slab_handle {
    use super::*;
//@ extract file packages/infinity_pool/src/opaque/slab_handle.rs
//@ end
}
pub use m_slab_handle::*;
mod m_layout_key {
    use super::*;
//@ extract file packages/infinity_pool/src/blind/layout_key.rs
//@ end
}
pub use m_layout_key::*;
mod m_raw {
    use super::*;
//@ extract file packages/infinity_pool/src/handles/raw.rs
//@ end
}
pub use m_raw::*;
mod m_raw_mut {
    use super::*;
//@ extract file packages/infinity_pool/src/handles/raw_mut.rs
//@ end
}
pub use m_raw_mut::*;
mod m_thread_safe {
    use super::*;
//@ extract file packages/infinity_pool/src/opaque/pool_raw_thread_safe.rs
//@ end
}
pub(crate) use m_thread_safe::*;
mod m_local {
    use super::*;
//@ extract file packages/infinity_pool/src/handles/local.rs
//@ end
}
pub use m_local::*;
mod m_local_mut {
    use super::*;
//@ extract file packages/infinity_pool/src/handles/local_mut.rs
//@ end
}
pub use m_local_mut::*;
mod m_pool_local {
    use super::*;
//@ extract file packages/infinity_pool/src/opaque/pool_local.rs
//@ end
}
pub use m_pool_local::*;

mod m_drop_policy {
    use super::*;
//@ extract file packages/infinity_pool/src/drop_policy.rs
//@ end
}
pub use m_drop_policy::*;
mod m_managed {
    use super::*;
//@ extract file packages/infinity_pool/src/handles/managed.rs
//@ rewrite "use std::sync::{Arc, Mutex};" "use std::sync::Arc;"
//@ end
}
pub use m_managed::*;
mod m_managed_mut {
    use super::*;
//@ extract file packages/infinity_pool/src/handles/managed_mut.rs
//@ rewrite "use std::sync::{Arc, Mutex};" "use std::sync::Arc;"
//@ end
}
pub use m_managed_mut::*;
mod m_pool_managed {
    use super::*;
//@ extract file packages/infinity_pool/src/opaque/pool_managed.rs
//@ rewrite "use std::sync::{Arc, Mutex};" "use std::sync::Arc;"
//@ rewrite "use std::panic::{AssertUnwindSafe, catch_unwind, resume_unwind};" "use std::panic::AssertUnwindSafe;"
//@ end
}
pub use m_pool_managed::*;
mod m_blind_core {
    use super::*;
//@ extract file packages/infinity_pool/src/blind/core.rs
//@ rewrite "use std::sync::{Arc, Mutex};" "use std::sync::Arc;"
//@ rewrite "use std::collections::BTreeMap;" ""
//@ end
}
pub(crate) use m_blind_core::*;
mod m_blind_raw {
    use super::*;
//@ extract file packages/infinity_pool/src/handles/blind_raw.rs
//@ end
}
pub use m_blind_raw::*;
mod m_blind_raw_mut {
    use super::*;
//@ extract file packages/infinity_pool/src/handles/blind_raw_mut.rs
//@ end
}
pub use m_blind_raw_mut::*;
mod m_blind_local {
    use super::*;
//@ extract file packages/infinity_pool/src/handles/blind_local.rs
//@ end
}
pub use m_blind_local::*;
mod m_blind_local_mut {
    use super::*;
//@ extract file packages/infinity_pool/src/handles/blind_local_mut.rs
//@ end
}
pub use m_blind_local_mut::*;
mod m_blind_managed {
    use super::*;
//@ extract file packages/infinity_pool/src/handles/blind_managed.rs
//@ end
}
pub use m_blind_managed::*;
mod m_blind_managed_mut {
    use super::*;
//@ extract file packages/infinity_pool/src/handles/blind_managed_mut.rs
//@ end
}
pub use m_blind_managed_mut::*;
mod m_blind_raw_builder {
    use super::*;
//@ extract file packages/infinity_pool/src/builders/blind_raw_builder.rs
//@ end
}
pub use m_blind_raw_builder::*;
mod m_blind_pool_raw {
    use super::*;
//@ extract file packages/infinity_pool/src/blind/pool_raw.rs
//@ end
}
pub use m_blind_pool_raw::*;
mod m_blind_pool_local {
    use super::*;
//@ extract file packages/infinity_pool/src/blind/pool_local.rs
//@ end
}
pub use m_blind_pool_local::*;
mod m_blind_pool_managed {
    use super::*;
//@ extract file packages/infinity_pool/src/blind/pool_managed.rs
//@ rewrite "use std::sync::{Arc, MutexGuard};" "use std::sync::Arc;"
//@ rewrite "use std::panic::{AssertUnwindSafe, catch_unwind, resume_unwind};" "use std::panic::AssertUnwindSafe;"
//@ end
}
pub use m_blind_pool_managed::*;

mod m_pinned_raw_builder {
    use super::*;
//@ extract file packages/infinity_pool/src/builders/pinned_raw_builder.rs
//@ end
}
pub use m_pinned_raw_builder::*;
mod m_pinned_pool_raw {
    use super::*;
//@ extract file packages/infinity_pool/src/pinned/pool_raw.rs
//@ end
}
pub use m_pinned_pool_raw::*;
mod m_pinned_pool_local {
    use super::*;
//@ extract file packages/infinity_pool/src/pinned/pool_local.rs
//@ end
}
pub use m_pinned_pool_local::*;
mod m_pinned_pool_managed {
    use super::*;
//@ extract file packages/infinity_pool/src/pinned/pool_managed.rs
//@ rewrite "use std::panic::{AssertUnwindSafe, catch_unwind, resume_unwind};" "use std::panic::AssertUnwindSafe;"
//@ rewrite "use std::sync::{Arc, Mutex};" "use std::sync::Arc;"
//@ end
}
pub use m_pinned_pool_managed::*;

// ------------------------------------------------------------------------------------------------------------------
// harnesses
static mut DROPS: [u8; 4] = [0; 4];
#[derive(Debug)]
pub struct Counted {
    id: u8,
    pad: u32,
}
impl Drop for Counted {
    fn drop(&mut self) {
        // SAFETY: single-threaded harnesses.
        unsafe { DROPS[self.id as usize] += 1 };
    }
}
fn drops(id: usize) -> u8 {
    // SAFETY: single-threaded harnesses.
    unsafe { DROPS[id] }
}
pub trait Speak {
    fn id(&self) -> u8;
}
impl Speak for Counted {
    fn id(&self) -> u8 {
        self.id
    }
}

#[derive(Debug)]
pub struct Big {
    id: u8,
    x: u64,
}
impl Drop for Big {
    fn drop(&mut self) {
        // SAFETY: single-threaded harnesses.
        unsafe { DROPS[self.id as usize] += 1 };
    }
}
/// same layout as Counted, different type: must share Counted's inner pool in a blind pool
#[derive(Debug)]
pub struct Twin {
    id: u8,
    pad: u32,
}
impl Drop for Twin {
    fn drop(&mut self) {
        // SAFETY: single-threaded harnesses.
        unsafe { DROPS[self.id as usize] += 1 };
    }
}

#[cfg(kani)]
mod harness {
    use super::*;

    /// Every way of letting go of object 0 ends in exactly one destruction, through the pool that issued it, at the
    /// right moment, with object 1 untouched. `$pool` offers insert / len / is_empty; the handle types offer the same
    /// method names in all four families.
    macro_rules! release_ways {
        ($pool:expr, $mut_dyn:ty) => {{
            let pool = $pool;
            let other = pool.insert(Counted { id: 1, pad: 9 });
            let h = pool.insert(Counted { id: 0, pad: 5 });
            let addr = h.ptr().as_ptr() as usize;
            assert!(pool.len() == 2 && drops(0) == 0);
            assert!(h.pad == 5 && h.id == 0);
            let way: u8 = kani::any();
            match way {
                0 => drop(h),
                1 => {
                    let s = h.into_shared();
                    assert!(s.ptr().as_ptr() as usize == addr);
                    let s2 = s.clone();
                    let s3 = s2.clone();
                    assert!(drops(0) == 0 && pool.len() == 2);
                    if kani::any() {
                        drop(s);
                        assert!(drops(0) == 0 && pool.len() == 2 && s2.pad == 5);
                        drop(s3);
                        assert!(drops(0) == 0 && pool.len() == 2 && s2.pad == 5);
                        drop(s2);
                    } else {
                        drop(s3);
                        drop(s2);
                        assert!(drops(0) == 0 && pool.len() == 2 && s.pad == 5);
                        drop(s);
                    }
                }
                2 => {
                    let e = h.erase();
                    assert!(e.ptr().as_ptr() as usize == addr && drops(0) == 0);
                    drop(e);
                }
                3 => {
                    let v = h.into_inner();
                    assert!(drops(0) == 0 && pool.len() == 1, "into_inner moves the value out without destroying it");
                    assert!(v.id == 0 && v.pad == 5);
                    drop(v);
                }
                4 => {
                    // SAFETY: the cast function returns a reference to the same object.
                    let d: $mut_dyn = unsafe { h.__private_cast_dyn_with_fn(|x| x as &mut dyn Speak) };
                    assert!(d.ptr().cast::<u8>().as_ptr() as usize == addr && d.id() == 0 && drops(0) == 0);
                    if kani::any() {
                        drop(d);
                    } else {
                        let s = d.into_shared();
                        let s2 = s.clone();
                        drop(s);
                        assert!(drops(0) == 0 && s2.id() == 0);
                        drop(s2);
                    }
                }
                5 => {
                    let s = h.into_shared();
                    let e = s.clone().erase();
                    drop(s);
                    assert!(drops(0) == 0 && pool.len() == 2);
                    drop(e);
                }
                _ => {
                    kani::assume(false);
                }
            }
            kani::cover!(way == 5, "every way is reachable");
            assert!(drops(0) == 1, "destroyed exactly once");
            assert!(drops(1) == 0 && other.pad == 9 && pool.len() == 1, "the other object is untouched");
            drop(other);
            assert!(drops(1) == 1 && pool.len() == 0 && pool.is_empty());
        }};
    }

    #[kani::proof]
    #[kani::unwind(6)]
    fn local_handles_release_exactly_once() {
        release_ways!(LocalOpaquePool::with_layout_of::<Counted>(), LocalPooledMut<dyn Speak>);
    }

    #[kani::proof]
    #[kani::unwind(6)]
    fn managed_handles_release_exactly_once() {
        release_ways!(OpaquePool::with_layout_of::<Counted>(), PooledMut<dyn Speak>);
    }

    #[kani::proof]
    #[kani::unwind(6)]
    fn blind_local_handles_release_exactly_once() {
        release_ways!(LocalBlindPool::new(), LocalBlindPooledMut<dyn Speak>);
    }

    #[kani::proof]
    #[kani::unwind(6)]
    fn blind_managed_handles_release_exactly_once() {
        release_ways!(BlindPool::new(), BlindPooledMut<dyn Speak>);
    }

    #[kani::proof]
    #[kani::unwind(6)]
    fn pinned_local_handles_release_exactly_once() {
        release_ways!(LocalPinnedPool::<Counted>::new(), LocalPooledMut<dyn Speak>);
    }

    #[kani::proof]
    #[kani::unwind(6)]
    fn pinned_managed_handles_release_exactly_once() {
        release_ways!(PinnedPool::<Counted>::new(), PooledMut<dyn Speak>);
    }

    /// RawPinnedPool<T> forwards to an opaque pool of exactly T's layout; remove / remove_unpin reach it once.
    #[kani::proof]
    #[kani::unwind(6)]
    fn raw_pinned_pool_forwards() {
        let mut pool = RawPinnedPool::<Counted>::new();
        assert!(pool.is_empty() && pool.len() == 0);
        let a = pool.insert(Counted { id: 0, pad: 1 });
        // SAFETY: the closure initialises the slot.
        let b = unsafe { pool.insert_with(|slot: &mut std::mem::MaybeUninit<Counted>| { slot.write(Counted { id: 1, pad: 2 }); }) };
        assert!(pool.len() == 2 && pool.capacity() >= 2 && !pool.is_empty());
        let (pa, pb) = (a.ptr().as_ptr() as usize, b.ptr().as_ptr() as usize);
        assert!(pa != pb);
        let mut it = pool.iter();
        assert!(it.len() == 2);
        let x = it.next().expect("two live objects").as_ptr() as usize;
        let y = it.next().expect("two live objects").as_ptr() as usize;
        assert!(it.next().is_none());
        assert!((x == pa && y == pb) || (x == pb && y == pa), "iteration yields exactly the live objects");
        pool.reserve(3);
        pool.shrink_to_fit();
        // SAFETY: a and b are live and removed once each.
        unsafe {
            if kani::any() {
                pool.remove(a);
                assert!(drops(0) == 1 && drops(1) == 0 && pool.len() == 1);
                let v = pool.remove_unpin(b);
                assert!(v.pad == 2 && drops(1) == 0);
            } else {
                let v = pool.remove_unpin(a.into_shared());
                assert!(v.pad == 1 && drops(0) == 0 && pool.len() == 1);
                drop(v);
                pool.remove(b.erase());
                assert!(drops(1) == 1);
            }
        }
        assert!(pool.is_empty());
    }

    /// Blind pools route by layout: an object goes into an inner pool of exactly its own layout (asserted by the
    /// callee contract), same-layout types share a pool, different layouts do not, and every handle finds its way
    /// back to the pool that issued it whatever the order of release.
    macro_rules! blind_routing {
        ($pool:expr) => {{
            let pool = $pool;
            let a = pool.insert(Counted { id: 0, pad: 1 });
            let b = pool.insert(Big { id: 1, x: 2 });
            let c = pool.insert(Twin { id: 2, pad: 3 });
            assert!(pool.len() == 3);
            assert!(pool.capacity_for::<Counted>() == MAXOBJ && pool.capacity_for::<Big>() == MAXOBJ);
            assert!(pool.capacity_for::<u8>() == 0, "no inner pool appears for a layout nothing was inserted with");
            assert!(a.pad == 1 && b.x == 2 && c.pad == 3);
            let order: u8 = kani::any();
            kani::assume(order < 6);
            match order {
                0 => { drop(a); drop(b); drop(c); }
                1 => { drop(a); drop(c); drop(b); }
                2 => { drop(b); drop(a); assert!(c.pad == 3 && pool.len() == 1); drop(c); }
                3 => { drop(b); drop(c); assert!(a.pad == 1 && pool.len() == 1); drop(a); }
                4 => { drop(c); let bs = b.into_shared(); let b2 = bs.clone(); drop(bs); assert!(b2.x == 2 && drops(1) == 0); drop(a); drop(b2); }
                _ => { let v = c.into_inner(); assert!(v.pad == 3 && drops(2) == 0 && pool.len() == 2); drop(v); drop(b.erase()); drop(a); }
            }
            kani::cover!(order == 5, "every order is reachable");
            assert!(drops(0) == 1 && drops(1) == 1 && drops(2) == 1, "each object destroyed exactly once");
            assert!(pool.len() == 0 && pool.is_empty());
            pool.shrink_to_fit();
            let again = pool.insert(Big { id: 3, x: 7 });
            assert!(again.x == 7 && pool.len() == 1);
            drop(again);
            assert!(drops(3) == 1);
        }};
    }

    #[kani::proof]
    #[kani::unwind(6)]
    fn blind_local_routes_by_layout() {
        blind_routing!(LocalBlindPool::new());
    }

    #[kani::proof]
    #[kani::unwind(6)]
    fn blind_managed_routes_by_layout() {
        blind_routing!(BlindPool::new());
    }

    #[kani::proof]
    #[kani::unwind(6)]
    fn raw_blind_routes_by_layout() {
        let mut pool = RawBlindPool::new();
        let a = pool.insert(Counted { id: 0, pad: 1 });
        let b = pool.insert(Big { id: 1, x: 2 });
        let c = pool.insert(Twin { id: 2, pad: 3 });
        assert!(pool.len() == 3);
        assert!(pool.capacity_for::<Counted>() == MAXOBJ && pool.capacity_for::<u8>() == 0);
        let (pa, pb, pc) = (a.ptr(), b.ptr(), c.ptr());
        let order: u8 = kani::any();
        kani::assume(order < 4);
        // SAFETY: each handle is removed once; the objects are live until then.
        unsafe {
            match order {
                0 => { pool.remove(a); pool.remove(b); pool.remove(c); }
                1 => { pool.remove(c); assert!(pool.len() == 2 && drops(2) == 1); pool.remove(b.into_shared()); pool.remove(a.erase()); }
                2 => { let v = pool.remove_unpin(b); assert!(v.x == 2 && drops(1) == 0 && pool.len() == 2); drop(v); pool.remove(a); pool.remove(c); }
                _ => { pool.remove(b.erase()); let s = a.into_shared(); assert!(s.ptr() == pa); pool.remove(s); let v = pool.remove_unpin(c); drop(v); }
            }
        }
        kani::cover!(order == 3, "every order is reachable");
        assert!(drops(0) == 1 && drops(1) == 1 && drops(2) == 1, "each object destroyed exactly once");
        assert!(pool.len() == 0 && pool.is_empty());
        pool.shrink_to_fit();
        let d = pool.insert(Big { id: 3, x: 7 });
        // SAFETY: d is live.
        assert!(unsafe { d.as_ref() }.x == 7 && pool.len() == 1);
        // SAFETY: removed once.
        unsafe { pool.remove(d) };
        assert!(drops(3) == 1 && pool.is_empty());
    }

    /// C02 (drop policy): every inner pool a RawBlindPool ever creates - through insert OR through reserve_for, in
    /// either order - carries the blind pool's own drop policy, so "panics on drop iff non-empty" (the raw pool's
    /// contract, proved in-crate) holds for the blind pool as a whole. Seed C02-d created reserve-first pools with the
    /// default policy.
    #[kani::proof]
    #[kani::unwind(6)]
    fn raw_blind_drop_policy_reaches_every_inner_pool() {
        let strict: bool = kani::any();
        let policy = if strict { DropPolicy::MustNotDropContents } else { DropPolicy::MayDropContents };
        let mut pool = RawBlindPool::builder().drop_policy(policy).build();
        if kani::any() {
            pool.reserve_for::<Counted>(1);
        }
        let a = pool.insert(Counted { id: 0, pad: 1 });
        if kani::any() {
            pool.reserve_for::<Big>(2);
        }
        let b = pool.insert(Big { id: 1, x: 2 });
        if kani::any() {
            pool.reserve_for::<Twin>(1);
        }
        // SAFETY: single-threaded harness.
        let (may, must) = unsafe { (CREATED_MAY_DROP, CREATED_MUST_NOT_DROP) };
        assert!(may + must == 2, "one inner pool per layout");
        assert!(if strict { must == 2 } else { may == 2 }, "C02.drop_policy_reaches_every_inner_pool");
        assert!(pool.len() == 2);
        // SAFETY: each handle is removed once.
        unsafe {
            pool.remove(a);
            pool.remove(b);
        }
        assert!(drops(0) == 1 && drops(1) == 1 && pool.is_empty());
    }

    /// C04: when user code run by a managed pool panics, the pool lock is released before the panic continues.
    #[kani::proof]
    #[kani::unwind(6)]
    fn managed_pools_release_lock_before_resuming_panic() {
        let which: u8 = kani::any();
        kani::assume(which < 4);
        release_lock_case(which);
        kani::cover!(which == 3);
    }
    #[kani::proof]
    #[kani::unwind(6)]
    fn pinned_pool_releases_lock_before_resuming_panic() {
        let which: u8 = kani::any();
        kani::assume(which == 4 || which == 5);
        release_lock_case(which);
        kani::cover!(which == 5);
    }
    fn release_lock_case(which: u8) {
        // SAFETY: single-threaded harness.
        unsafe { GHOST_INJECT_PANICS = true };
        match which {
            4 => {
                let pool = PinnedPool::<Counted>::new();
                let keep = pool.insert(Counted { id: 1, pad: 9 });
                // SAFETY: the closure initialises the slot.
                let h = unsafe { pool.insert_with(|slot: &mut std::mem::MaybeUninit<Counted>| { slot.write(Counted { id: 0, pad: 5 }); }) };
                assert!(pool.len() == 2 && h.pad == 5 && keep.pad == 9);
            }
            5 => {
                let pool = PinnedPool::<Counted>::new();
                let keep = pool.insert(Counted { id: 1, pad: 9 });
                let n = pool.with_iter(|it| it.count());
                assert!(n == 1 && pool.len() == 1 && keep.pad == 9);
            }
            0 => {
                let pool = OpaquePool::with_layout_of::<Counted>();
                let keep = pool.insert(Counted { id: 1, pad: 9 });
                // SAFETY: the closure initialises the slot.
                let h = unsafe { pool.insert_with(|slot: &mut std::mem::MaybeUninit<Counted>| { slot.write(Counted { id: 0, pad: 5 }); }) };
                assert!(pool.len() == 2 && h.pad == 5 && keep.pad == 9);
            }
            1 => {
                let pool = OpaquePool::with_layout_of::<Counted>();
                let keep = pool.insert(Counted { id: 1, pad: 9 });
                // SAFETY: the closure initialises the slot; the layout matches.
                let h = unsafe { pool.insert_with_unchecked(|slot: &mut std::mem::MaybeUninit<Counted>| { slot.write(Counted { id: 0, pad: 5 }); }) };
                assert!(pool.len() == 2 && h.pad == 5 && keep.pad == 9);
            }
            2 => {
                let pool = OpaquePool::with_layout_of::<Counted>();
                let keep = pool.insert(Counted { id: 1, pad: 9 });
                let n = pool.with_iter(|it| it.count());
                assert!(n == 1 && pool.len() == 1 && keep.pad == 9);
            }
            _ => {
                let pool = BlindPool::new();
                let keep = pool.insert(Counted { id: 1, pad: 9 });
                // SAFETY: the closure initialises the slot.
                let h = unsafe { pool.insert_with(|slot: &mut std::mem::MaybeUninit<Big>| { slot.write(Big { id: 0, x: 5 }); }) };
                assert!(pool.len() == 2 && h.x == 5 && keep.pad == 9);
            }
        }
        // SAFETY: single-threaded harness.
        assert!(unsafe { GHOST_LOCKS_HELD } == 0, "no lock is left held after the operation returns");
    }

    // ---- C04, object graphs: a pooled object that owns a handle to another object of the same pool ----
    macro_rules! node {
        ($name:ident, $handle:ty) => {
            pub struct $name {
                id: u8,
                child: Option<$handle>,
            }
            impl Drop for $name {
                fn drop(&mut self) {
                    // SAFETY: single-threaded harnesses.
                    unsafe { DROPS[self.id as usize] += 1 };
                }
            }
        };
    }
    node!(LocalNodeU, LocalPooledMut<LocalNodeU>);
    node!(LocalNodeS, LocalPooled<LocalNodeS>);
    node!(NodeU, PooledMut<NodeU>);
    node!(NodeS, Pooled<NodeS>);
    node!(BlindLocalNodeU, LocalBlindPooledMut<u64>);
    node!(BlindLocalNodeS, LocalBlindPooled<u64>);
    node!(BlindNodeU, BlindPooledMut<u64>);
    node!(BlindNodeS, BlindPooled<u64>);

    /// Dropping the owner runs its destructor inside pool.remove, which drops the child handle, which must be able
    /// to reach the pool again: the operation terminates without panicking, both objects are destroyed once, the
    /// pool is empty and still usable.
    macro_rules! nested_opaque {
        ($fname:ident, $pool:expr, $node:ident, $wrap:expr) => {
            #[kani::proof]
            #[kani::unwind(6)]
            fn $fname() {
                let pool = $pool;
                let leaf = pool.insert($node { id: 1, child: None });
                let owner = pool.insert($node { id: 0, child: Some(($wrap)(leaf)) });
                assert!(pool.len() == 2);
                drop(($wrap)(owner));
                assert!(drops(0) == 1 && drops(1) == 1, "owner and child destroyed exactly once");
                assert!(pool.len() == 0);
                let again = pool.insert($node { id: 2, child: None });
                assert!(pool.len() == 1);
                drop(again);
            }
        };
    }
    macro_rules! nested_blind {
        ($fname:ident, $pool:expr, $node:ident, $wrap:expr) => {
            #[kani::proof]
            #[kani::unwind(6)]
            fn $fname() {
                let pool = $pool;
                let leaf = pool.insert(77_u64);
                let owner = pool.insert($node { id: 0, child: Some(($wrap)(leaf)) });
                assert!(pool.len() == 2);
                drop(($wrap)(owner));
                assert!(drops(0) == 1, "owner destroyed exactly once");
                assert!(pool.len() == 0);
                let again = pool.insert(5_u64);
                assert!(pool.len() == 1);
                drop(again);
            }
        };
    }
    fn same<T>(x: T) -> T {
        x
    }
    nested_opaque!(nested_drop_local_unique, LocalOpaquePool::with_layout_of::<LocalNodeU>(), LocalNodeU, same);
    nested_opaque!(nested_drop_local_shared, LocalOpaquePool::with_layout_of::<LocalNodeS>(), LocalNodeS, |h: LocalPooledMut<LocalNodeS>| h.into_shared());
    nested_opaque!(nested_drop_managed_unique, OpaquePool::with_layout_of::<NodeU>(), NodeU, same);
    nested_opaque!(nested_drop_managed_shared, OpaquePool::with_layout_of::<NodeS>(), NodeS, |h: PooledMut<NodeS>| h.into_shared());
    // The same programs on LocalBlindPool / BlindPool exhausted memory when run next to the other harnesses (they
    // pass alone in ~180 s with the same failed check); the blind call sites are shown natively by replay_handles.
}
