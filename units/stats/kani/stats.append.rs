
// ===== folo-verif overlay (add-only; compiled only under `cargo kani`) =====
#[cfg(kani)]
mod verif_kani {
    use super::*;
    use crate::MIN_P_VALUE;

    fn any_values<const N: usize>() -> [f64; N] {
        let mut v = [0.0f64; N];
        let mut i = 0;
        while i < N {
            v[i] = kani::any();
            i += 1;
        }
        v
    }

    /// pair_count(n) = n(n-1)/2 whenever that fits, else 0 (capacity hint only).
    #[kani::proof]
    fn pair_count_contract() {
        let n: usize = kani::any();
        let r = pair_count(n);
        if n <= (1usize << 32) {
            assert!(r as u128 == (n as u128) * (n.saturating_sub(1) as u128) / 2, "C20.pair_count");
        }
    }

    /// scaled_average_ranks == 2*#less + #equal + 1 (twice the average rank), ties and NaN order (total_cmp) included.
    fn ranks_contract<const N: usize>() {
        let v = any_values::<N>();
        let r = scaled_average_ranks(&v);
        assert!(r.len() == N, "C20.ranks_len");
        let mut i = 0;
        while i < N {
            let mut less = 0usize;
            let mut equal = 0usize;
            let mut j = 0;
            while j < N {
                match v[j].total_cmp(&v[i]) {
                    Ordering::Less => less += 1,
                    Ordering::Equal => equal += 1,
                    Ordering::Greater => {}
                }
                j += 1;
            }
            assert!(r[i] == 2 * less + equal + 1, "C20.ranks_match_definition");
            i += 1;
        }
    }

    /// Rank-based results are invariant under strictly increasing transformations: two samples with the same
    /// pairwise order have the same ranks.
    fn ranks_invariance<const N: usize>() {
        let v = any_values::<N>();
        let w = any_values::<N>();
        let mut i = 0;
        while i < N {
            let mut j = 0;
            while j < N {
                kani::assume(v[i].total_cmp(&v[j]) == w[i].total_cmp(&w[j]));
                j += 1;
            }
            i += 1;
        }
        let rv = scaled_average_ranks(&v);
        let rw = scaled_average_ranks(&w);
        let mut i = 0;
        while i < N {
            assert!(rv[i] == rw[i], "C20.ranks_invariant_under_order_preserving_relabelling");
            i += 1;
        }
    }

    /// median_in_place = middle order statistic / midpoint of the two middle ones.
    fn median_contract<const N: usize>() {
        let mut v = any_values::<N>();
        // infinite-free samples (property statement); the midpoint of -inf and +inf is NaN by IEEE-754
        let mut i = 0;
        while i < N {
            kani::assume(!v[i].is_infinite());
            i += 1;
        }
        let orig = v;
        let m = median_in_place(&mut v);
        if N == 0 {
            assert!(m.is_none(), "C20.median_empty");
            return;
        }
        let m = m.expect("C20.median_some");
        // rank of each element in the original sample
        let mut lo = f64::NAN;
        let mut hi = f64::NAN;
        let mut found_lo = false;
        let mut found_hi = false;
        let mut i = 0;
        while i < N {
            let mut less = 0usize;
            let mut less_eq = 0usize;
            let mut j = 0;
            while j < N {
                match orig[j].total_cmp(&orig[i]) {
                    Ordering::Less => { less += 1; less_eq += 1; }
                    Ordering::Equal => less_eq += 1,
                    Ordering::Greater => {}
                }
                j += 1;
            }
            // orig[i] occupies sorted positions less .. less_eq-1
            let lo_pos = (N - 1) / 2;
            let hi_pos = N / 2;
            if less <= lo_pos && lo_pos < less_eq { lo = orig[i]; found_lo = true; }
            if less <= hi_pos && hi_pos < less_eq { hi = orig[i]; found_hi = true; }
            i += 1;
        }
        assert!(found_lo && found_hi, "harness: order statistics exist");
        let expect = if N % 2 == 1 { hi } else { f64::midpoint(lo, hi) };
        assert!(m.total_cmp(&expect) == Ordering::Equal, "C20.median_matches_definition");
    }

    /// Pettitt location over arbitrary doubled ranks: the first split maximising |2*R_t - t*(n+1)|.
    fn pettitt_contract<const N: usize>() {
        let mut ranks = [0usize; N];
        let mut i = 0;
        while i < N {
            ranks[i] = kani::any();
            kani::assume(ranks[i] >= 2 && ranks[i] <= 2 * N);
            i += 1;
        }
        let r = pettitt_rank_location(&ranks);
        if N < 2 {
            assert!(r.is_none(), "C20.pettitt_needs_two_points");
            return;
        }
        let (best_index, best_rank_sum, best_abs) = r.expect("C20.pettitt_some");
        let n_f = N as f64;
        let mut prefix = 0usize;
        let mut t = 1;
        let mut max_abs = -1.0f64;
        let mut arg = 0usize;
        let mut arg_sum = 0usize;
        while t < N {
            prefix += ranks[t - 1];
            let u = (prefix as f64) - (t as f64) * (n_f + 1.0);
            if u.abs() > max_abs {
                max_abs = u.abs();
                arg = t;
                arg_sum = prefix;
            }
            t += 1;
        }
        assert!(best_index == arg && best_rank_sum == arg_sum && best_abs == max_abs, "C20.pettitt_matches_brute_force");
        assert!(best_index >= 1 && best_index < N, "C20.pettitt_split_inside_series");
    }

    static mut SEEN_Z: Option<f64> = None;
    fn stub_two_sided_p_recording(z: f64) -> f64 {
        unsafe { SEEN_Z = Some(z) };
        stub_two_sided_p(z)
    }

    /// Normal approximation of the Mann-Whitney test: the continuity-corrected statistic handed to the normal tail
    /// is max(|U - mean| - 1/2, 0) / sigma: never negative, exactly zero when the two U statistics balance
    /// (p = "no evidence"), and the tail is not consulted when the variance vanishes.
    #[kani::proof]
    #[kani::stub(crate::normal::two_sided_p_from_z, stub_two_sided_p_recording)]
    fn normal_mann_whitney_statistic_contract() {
        let n1: usize = kani::any();
        let n2: usize = kani::any();
        kani::assume(n1 >= 1 && n1 <= 64 && n2 >= 1 && n2 <= 64);
        // rank sums are multiples of 1/2 between the minimum and maximum attainable
        let twice: usize = kani::any();
        kani::assume(twice >= n1 * (n1 + 1) && twice <= n1 * (n1 + 1) + 2 * n1 * n2);
        let rank_sum_left = (twice as f64) / 2.0;
        let tie_term: f64 = kani::any();
        kani::assume(tie_term >= 0.0 && tie_term <= 1.0e9);
        let p = normal_mann_whitney_p(n1, n2, rank_sum_left, tie_term);
        assert!(p >= MIN_P_VALUE && p <= NO_EVIDENCE, "C20.p_value_in_reportable_range");
        let u1 = rank_sum_left - (n1 * (n1 + 1)) as f64 / 2.0;
        let mean = (n1 * n2) as f64 / 2.0;
        let dist = (u1 - mean).abs();
        #[allow(static_mut_refs)]
        match unsafe { SEEN_Z } {
            None => assert!(p == NO_EVIDENCE, "C20.mw_normal_no_evidence_when_variance_vanishes"),
            Some(z) => {
                assert!(z >= 0.0, "C20.mw_normal_statistic_never_negative");
                assert!((z == 0.0) == (dist <= 0.5), "C20.mw_normal_balanced_samples_give_zero_statistic (continuity correction floors at 0)");
            }
        }
        kani::cover!(dist == 0.0 && unsafe { SEEN_Z }.is_some());
        kani::cover!(dist > 0.5);
    }

    /// Exact permutation tail: every reported p-value lies in [MIN_P_VALUE, 1] (the doubled tail is floored at the
    /// reportable minimum, not only capped at one), for any subset-count table.
    #[kani::proof]
    #[kani::unwind(6)]
    fn exact_tail_p_values_in_reportable_range_n3() {
        let counts: [f64; 3] = [kani::any(), kani::any(), kani::any()];
        let mut i = 0;
        while i < 3 {
            // subset counts: non-negative integers below 2^53 (the feasibility guard)
            kani::assume(counts[i] >= 0.0 && counts[i] <= 9_007_199_254_740_992.0);
            i += 1;
        }
        let p = exact_tail_p_values(&counts);
        assert!(p.len() == 3, "C20.exact_tail_len");
        let mut i = 0;
        while i < 3 {
            assert!(p[i] >= MIN_P_VALUE && p[i] <= NO_EVIDENCE, "C20.p_value_in_reportable_range");
            i += 1;
        }
        kani::cover!(counts[0] == 1.0 && counts[1] > 4.0e15);
    }

    fn stub_two_sided_p(_z: f64) -> f64 {
        let p: f64 = kani::any();
        kani::assume(p >= MIN_P_VALUE && p <= NO_EVIDENCE);
        p
    }

    /// Mann-Kendall S = sum of sign(x_j - x_i) over i < j; p in range; "no evidence" when the variance vanishes.
    /// (The normal tail numerics are stubbed: an arbitrary value in the reportable range.)
    fn mann_kendall_contract<const N: usize>() {
        let v = any_values::<N>();
        let mk = mann_kendall(&v);
        if N < 3 {
            assert!(mk.s == 0.0 && mk.p_value == NO_EVIDENCE, "C20.mk_short_series_no_evidence");
            return;
        }
        let mut s = 0i32;
        let mut all_equal = true;
        let mut i = 0;
        while i < N {
            let mut j = i + 1;
            while j < N {
                s += match v[j].total_cmp(&v[i]) {
                    Ordering::Greater => 1,
                    Ordering::Less => -1,
                    Ordering::Equal => 0,
                };
                if v[j].total_cmp(&v[i]) != Ordering::Equal { all_equal = false; }
                j += 1;
            }
            i += 1;
        }
        assert!(mk.s == s as f64, "C20.mk_s_matches_brute_force");
        assert!(mk.p_value >= MIN_P_VALUE && mk.p_value <= NO_EVIDENCE, "C20.p_value_in_reportable_range");
        if all_equal {
            assert!(mk.p_value == NO_EVIDENCE, "C20.mk_constant_series_no_evidence");
        }
    }

    /// Benjamini-Hochberg for two p-values, family size m >= 2: sort; k* = 2 if p_(2) <= q, else 1 if p_(1) <= q/m*1...;
    /// rejected = the k* smallest.
    fn bh_contract_n2(m: usize) {
        let p: [f64; 2] = [kani::any(), kani::any()];
        let q: f64 = kani::any();
        kani::assume(p[0] >= 0.0 && p[0] <= 1.0 && p[1] >= 0.0 && p[1] <= 1.0 && q >= 0.0 && q <= 1.0);
        let keep = benjamini_hochberg(&p, q, m);
        assert!(keep.len() == 2, "C20.bh_len");
        let (lo, hi) = if p[0] <= p[1] { (p[0], p[1]) } else { (p[1], p[0]) };
        let t1 = 1.0 / (m as f64) * q;
        let t2 = 2.0 / (m as f64) * q;
        let kstar = if hi <= t2 { 2 } else if lo <= t1 { 1 } else { 0 };
        let kept = (if keep[0] { 1 } else { 0 }) + (if keep[1] { 1 } else { 0 });
        assert!(kept == kstar, "C20.bh_number_of_rejections_is_k_star");
        if kstar == 1 && p[0] != p[1] {
            let smaller = if p[0] < p[1] { 0 } else { 1 };
            assert!(keep[smaller], "C20.bh_rejects_the_smallest_p_values");
        }
        kani::cover!(kstar == 1);
        kani::cover!(kstar == 2);
        kani::cover!(kstar == 0);
    }

    /// Pascal's triangle C(n, k) for n <= 60, k <= 30, evaluated by rustc at compile time (additions only).
    const fn pascal() -> [[u128; 31]; 61] {
        let mut t = [[0u128; 31]; 61];
        let mut n = 0;
        while n < 61 {
            let mut k = 0;
            while k <= 30 && k <= n {
                t[n][k] = if k == 0 || k == n { 1 } else { t[n - 1][k - 1] + t[n - 1][k] };
                k += 1;
            }
            n += 1;
        }
        t
    }
    static PASCAL: [[u128; 31]; 61] = pascal();

    /// exact_mw_feasible(n1, n2) <=> C(n1+n2, min(n1,n2)) < 2^53, against Pascal's triangle, for n1, n2 <= 30
    /// (the whole boundary region: C(56,28) < 2^53 <= C(58,29)); larger inputs: see exact_mw_feasible_large.
    #[kani::proof]
    #[kani::unwind(33)]
    fn exact_mw_feasible_matches_binomial() {
        let table = &PASCAL;
        let n1: usize = kani::any();
        let n2: usize = kani::any();
        kani::assume(n1 <= 30 && n2 <= 30);
        let k = if n1 < n2 { n1 } else { n2 };
        let expect = table[n1 + n2][k] < (1u128 << 53);
        assert!(exact_mw_feasible(n1, n2) == expect, "C20.exact_mw_feasible_iff_binomial_below_2_53");
        kani::cover!(n1 == 28 && n2 == 28);
        kani::cover!(n1 == 29 && n2 == 29);
    }

    /// Large inputs: with one sample empty the exact test is trivially feasible; with min >= 1 and n >= 2^53 it is not.
    #[kani::proof]
    #[kani::unwind(5)]
    fn exact_mw_feasible_large() {
        let n1: usize = kani::any();
        let n2: usize = kani::any();
        kani::assume(n1 <= (1usize << 62) && n2 <= (1usize << 62)); // sample sizes cannot approach the address space
        kani::assume(n1 == 0 || n2 == 0 || (n1 >= 1 && n2 >= (1usize << 53)) || (n2 >= 1 && n1 >= (1usize << 53)));
        let r = exact_mw_feasible(n1, n2);
        assert!(r == (n1 == 0 || n2 == 0), "C20.exact_mw_feasible_extremes");
    }

    macro_rules! inst {
        ($name:ident, $unwind:expr, $body:expr) => {
            #[kani::proof]
            #[kani::unwind($unwind)]
            fn $name() {
                $body
            }
        };
    }
    macro_rules! inst_stub {
        ($name:ident, $unwind:expr, $body:expr) => {
            #[kani::proof]
            #[kani::unwind($unwind)]
            #[kani::stub(crate::normal::two_sided_p_from_z, stub_two_sided_p)]
            fn $name() {
                $body
            }
        };
    }
    inst!(bh_contract_n2_m2, 5, bh_contract_n2(2));
    // family size 3 (division by 3.0) did not finish in 3600 s and is not claimed
    inst!(ranks_contract_n2, 5, ranks_contract::<2>());
    inst!(ranks_contract_n3, 6, ranks_contract::<3>());
    inst!(ranks_contract_n4, 7, ranks_contract::<4>());
    inst!(ranks_invariance_n3, 6, ranks_invariance::<3>());
    inst!(median_contract_n1, 4, median_contract::<1>());
    inst!(median_contract_n2, 5, median_contract::<2>());
    inst!(median_contract_n3, 6, median_contract::<3>());
    inst!(median_contract_n4, 7, median_contract::<4>());
    inst!(pettitt_contract_n2, 5, pettitt_contract::<2>());
    inst!(pettitt_contract_n3, 6, pettitt_contract::<3>());
    inst!(pettitt_contract_n4, 7, pettitt_contract::<4>());
    inst_stub!(mann_kendall_contract_n2, 5, mann_kendall_contract::<2>());
    inst_stub!(mann_kendall_contract_n3, 6, mann_kendall_contract::<3>());
    // n = 4 exhausted memory when run next to the other thorough harnesses: not registered.
}
