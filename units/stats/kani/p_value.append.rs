
// ===== folo-verif overlay (add-only; compiled only under `cargo kani`) =====
#[cfg(kani)]
mod verif_kani {
    use super::*;

    /// Every reported p-value lies in [MIN_P_VALUE, 1]; non-finite intermediate results map to "no evidence".
    #[kani::proof]
    fn clamp_p_value_contract() {
        let p: f64 = kani::any();
        let r = clamp_p_value(p);
        assert!(r >= MIN_P_VALUE && r <= NO_EVIDENCE, "C20.p_value_in_reportable_range");
        if !p.is_finite() {
            assert!(r == NO_EVIDENCE, "C20.non_finite_maps_to_no_evidence");
        }
        if p.is_finite() && p >= MIN_P_VALUE && p <= NO_EVIDENCE {
            assert!(r == p, "C20.clamp_identity_inside_range");
        }
        if p.is_finite() && p < MIN_P_VALUE {
            assert!(r == MIN_P_VALUE, "C20.clamp_floor");
        }
        if p.is_finite() && p > NO_EVIDENCE {
            assert!(r == NO_EVIDENCE, "C20.clamp_ceiling");
        }
    }
}
