// Verus unit: the pin-status decision of ProcessorSet::pin_current_thread_to (C10: "the library's answers about
// the current thread - pinned or not, current processor, current memory region - are consistent with the last pin").
// The region is the if / else-if / else chain after the platform call. It is verified over stand-in observers of
// the processor list (len, first, last, index, the region-id sequence) and of the hardware (update_pin_status
// records what it is told); the iterator chain `.iter().map(..).unique().count()` is replaced by a shim whose
// contract is "number of distinct region ids" (declared local rewrite; itertools::unique is HashSet-based).
use vstd::prelude::*;
verus! {

type ProcessorId = u32;
type MemoryRegionId = u32;

pub struct Processor { pub pid: ProcessorId, pub region: MemoryRegionId }
impl Processor {
    pub fn id(&self) -> (r: ProcessorId) ensures r == self.pid { self.pid }
    pub fn memory_region_id(&self) -> (r: MemoryRegionId) ensures r == self.region { self.region }
}

/// Stand-in for nonempty::NonEmpty<Processor>: a non-empty sequence.
pub struct Processors { pub v: Vec<Processor> }
impl Processors {
    pub open spec fn wf(&self) -> bool { self.v@.len() >= 1 }
    pub fn len(&self) -> (r: usize) ensures r == self.v@.len() { self.v.len() }
    pub fn first(&self) -> (r: &Processor) requires self.wf() ensures *r == self.v@[0] { &self.v[0] }
    pub fn last(&self) -> (r: &Processor) requires self.wf() ensures *r == self.v@[self.v@.len() - 1] { &self.v[self.v.len() - 1] }
}
pub open spec fn all_same_region(s: Seq<Processor>) -> bool {
    forall|i: int, j: int| 0 <= i < s.len() && 0 <= j < s.len() ==> s[i].region == s[j].region
}
/// `.iter().map(Processor::memory_region_id).unique().count()` (assumed): 1 iff all processors share a region
/// (for a non-empty list), otherwise at least 2.
#[verifier::external_body]
pub fn count_distinct_regions(p: &Processors) -> (r: usize)
    requires p.wf(),
    ensures (r == 1) == all_same_region(p.v@), r >= 1,
{ unimplemented!() }

/// Stand-in for SystemHardware::update_pin_status: records what the library will answer from now on.
pub struct Hardware { pub pinned_processor: Option<ProcessorId>, pub pinned_region: Option<MemoryRegionId> }
impl Hardware {
    pub fn update_pin_status(&mut self, processor_id: Option<ProcessorId>, memory_region_id: Option<MemoryRegionId>)
        requires !(memory_region_id.is_none() && processor_id.is_some()),   // the real function asserts this
        ensures final(self).pinned_processor == processor_id, final(self).pinned_region == memory_region_id,
    { self.pinned_processor = processor_id; self.pinned_region = memory_region_id; }
}
pub struct SetStub { pub processors: Processors, pub hardware: Hardware }

impl SetStub {
//@ extract block packages/many_cpus_impl/src/processor_set.rs ProcessorSet::pin_current_thread_to from "if self.processors.len() == 1 {"
//@ wrap
    fn record_pin_status(&mut self)
        requires old(self).processors.wf(),
        ensures
            final(self).processors == old(self).processors,
            // pinned processor known iff the set is a single processor
            final(self).hardware.pinned_processor == (if old(self).processors.v@.len() == 1 { Some(old(self).processors.v@[0].pid) } else { None::<ProcessorId> }),
            // pinned region known iff ALL processors of the set share one region - then it is that region
            final(self).hardware.pinned_region == (if all_same_region(old(self).processors.v@) { Some(old(self).processors.v@[0].region) } else { None::<MemoryRegionId> }),
//@ rewrite-re? "self\s*\.processors\s*\.iter\(\)\s*\.map\(Processor::memory_region_id\)\s*\.unique\(\)\s*\.count\(\)" "count_distinct_regions(&self.processors)"
//@ end
}

} // verus!
fn main() {}
