//! Native search for a failing input of the REAL pin bookkeeping on fake hardware: for topologies of 1..3 regions
//! with 1..3 processors each, every region policy and every count, pin a fresh thread to the selected set and
//! compare the library's answers with the set it was pinned to. Prints FAILING-INPUT lines.
use std::collections::HashSet;
use std::num::NonZero;
use std::thread;

use many_cpus_impl::SystemHardware;
use many_cpus_impl::fake::{HardwareBuilder, ProcessorBuilder};

fn main() {
    let mut failures = 0u32;
    let mut runs = 0u32;
    'outer: for r0 in 1..=3usize {
        for r1 in 0..=3usize {
            for r2 in 0..=2usize {
                if r1 == 0 && r2 > 0 {
                    continue;
                }
                let sizes = [r0, r1, r2];
                for policy in 0..5 {
                    let total: usize = sizes.iter().sum();
                    for count in 1..=total {
                        for _rep in 0..4 {
                            runs += 1;
                            let sizes2 = sizes;
                            let res = thread::spawn(move || -> Option<String> {
                                let mut b = HardwareBuilder::new();
                                let mut id = 0u32;
                                // interleave ids over regions so that sets are not grouped by region
                                let maxn = *sizes2.iter().max().unwrap();
                                for k in 0..maxn {
                                    for (region, &n) in sizes2.iter().enumerate() {
                                        if k < n {
                                            b = b.processor(ProcessorBuilder::new().id(id).memory_region(region as u32));
                                            id += 1;
                                        }
                                    }
                                }
                                let hw = SystemHardware::fake(b);
                                let builder = hw.all_processors().to_builder();
                                let builder = match policy {
                                    0 => builder,
                                    1 => builder.prefer_same_memory_region(),
                                    2 => builder.same_memory_region(),
                                    3 => builder.prefer_different_memory_regions(),
                                    _ => builder.different_memory_regions(),
                                };
                                let set = builder.take(NonZero::new(count).unwrap())?;
                                let ids: Vec<u32> = set.processors().iter().map(|p| p.id()).collect();
                                let regions: Vec<u32> = set.processors().iter().map(|p| p.memory_region_id()).collect();
                                let distinct: HashSet<u32> = regions.iter().copied().collect();
                                set.pin_current_thread_to();
                                let proc_pinned = hw.is_thread_processor_pinned();
                                let region_pinned = hw.is_thread_memory_region_pinned();
                                let mut bad = Vec::new();
                                if proc_pinned != (ids.len() == 1) {
                                    bad.push(format!("is_thread_processor_pinned() = {proc_pinned}"));
                                }
                                if region_pinned != (distinct.len() == 1) {
                                    bad.push(format!("is_thread_memory_region_pinned() = {region_pinned}"));
                                }
                                if region_pinned && distinct.len() == 1 && hw.current_memory_region_id() != regions[0] {
                                    bad.push("current_memory_region_id() is not the pinned region".to_string());
                                }
                                if proc_pinned && ids.len() == 1 && hw.current_processor_id() != ids[0] {
                                    bad.push("current_processor_id() is not the pinned processor".to_string());
                                }
                                if bad.is_empty() { None } else { Some(format!("regions={sizes2:?} policy={policy} take({count}) -> ids {ids:?} in regions {regions:?}; after pin_current_thread_to(): {}", bad.join(", "))) }
                            })
                            .join();
                            match res {
                                Ok(None) => {}
                                Ok(Some(m)) => {
                                    failures += 1;
                                    println!("FAILING-INPUT {m}");
                                }
                                Err(_) => {
                                    failures += 1;
                                    println!("FAILING-INPUT regions={sizes:?} policy={policy} take({count}): panicked");
                                }
                            }
                            if failures >= 3 {
                                break 'outer;
                            }
                        }
                    }
                }
            }
        }
    }
    // re-pinning sequences on ONE thread (and two hardware instances side by side): the answers follow the last pin
    let res = thread::spawn(move || -> Vec<String> {
        let mk = || {
            let mut b = HardwareBuilder::new();
            for id in 0..4u32 {
                b = b.processor(ProcessorBuilder::new().id(id).memory_region(id % 2));
            }
            SystemHardware::fake(b)
        };
        let hw = mk();
        let other = mk();
        let subsets: Vec<Vec<u32>> = (1u32..16).map(|m| (0..4u32).filter(|i| m >> i & 1 == 1).collect()).collect();
        let mut out = Vec::new();
        let mut seed = 12345u64;
        let mut history: Vec<Vec<u32>> = Vec::new();
        for step in 0..400 {
            seed = seed.wrapping_mul(6364136223846793005).wrapping_add(1442695040888963407);
            let ids = subsets[((seed >> 33) % 15) as usize].clone();
            let on_other = step % 7 == 3;
            let target = if on_other { &other } else { &hw };
            let set = target.all_processors().to_builder().filter(|p| ids.contains(&p.id())).take_all().expect("non-empty");
            set.pin_current_thread_to();
            history.push(ids.clone());
            let regions: HashSet<u32> = ids.iter().map(|i| i % 2).collect();
            let mut bad = Vec::new();
            if target.is_thread_processor_pinned() != (ids.len() == 1) {
                bad.push("is_thread_processor_pinned()");
            }
            if target.is_thread_memory_region_pinned() != (regions.len() == 1) {
                bad.push("is_thread_memory_region_pinned()");
            }
            if regions.len() == 1 && target.is_thread_memory_region_pinned() && target.current_memory_region_id() != ids[0] % 2 {
                bad.push("current_memory_region_id()");
            }
            if ids.len() == 1 && target.is_thread_processor_pinned() && target.current_processor_id() != ids[0] {
                bad.push("current_processor_id()");
            }
            if !bad.is_empty() {
                let h = &history[history.len().saturating_sub(4)..];
                out.push(format!("4 processors in 2 regions (id % 2); pins on one thread, last ones {h:?} (this one on the {} instance): {} disagree(s) with the last pin", if on_other { "second" } else { "first" }, bad.join(", ")));
                if out.len() >= 3 {
                    break;
                }
            }
        }
        out
    })
    .join();
    match res {
        Ok(v) => {
            for m in v {
                failures += 1;
                println!("FAILING-INPUT {m}");
            }
        }
        Err(_) => {
            failures += 1;
            println!("FAILING-INPUT re-pinning sequence: panicked");
        }
    }
    println!("runs={runs} failures={failures}");
}
