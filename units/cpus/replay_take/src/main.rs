//! Native search for a failing input of the real `ProcessorSetBuilder::take` on fake hardware:
//! every topology of <= 3 memory regions with <= 3 processors each, every region policy, every count,
//! several repetitions (the selection is randomised). Prints FAILING-INPUT lines.
use std::collections::HashSet;
use std::num::NonZero;

use many_cpus_impl::SystemHardware;
use many_cpus_impl::fake::{HardwareBuilder, ProcessorBuilder};

fn main() {
    let mut failures = 0u32;
    let mut runs = 0u64;
    for r0 in 1..=3usize {
        for r1 in 0..=3usize {
            for r2 in 0..=3usize {
                if r1 == 0 && r2 > 0 {
                    continue;
                }
                let sizes = [r0, r1, r2];
                let mut b = HardwareBuilder::new();
                let mut id = 0u32;
                for (region, &n) in sizes.iter().enumerate() {
                    for _ in 0..n {
                        b = b.processor(ProcessorBuilder::new().id(id).memory_region(region as u32));
                        id += 1;
                    }
                }
                let total = id as usize;
                let hw = SystemHardware::fake(b);
                let all = hw.all_processors();
                let region_sizes: Vec<usize> = sizes.iter().copied().filter(|&n| n > 0).collect();
                for policy in 0..5 {
                    for count in 1..=total + 1 {
                        for _rep in 0..8 {
                            runs += 1;
                            let builder = all.to_builder();
                            let builder = match policy {
                                0 => builder,
                                1 => builder.prefer_same_memory_region(),
                                2 => builder.same_memory_region(),
                                3 => builder.prefer_different_memory_regions(),
                                _ => builder.different_memory_regions(),
                            };
                            let res = builder.take(NonZero::new(count).unwrap());
                            let feasible = match policy {
                                0 | 1 | 3 => count <= total,
                                2 => region_sizes.iter().any(|&n| n >= count),
                                _ => region_sizes.len() >= count,
                            };
                            match res {
                                None => {
                                    if feasible {
                                        failures += 1;
                                        println!("FAILING-INPUT regions={sizes:?} policy={policy} take({count}) returned None although a qualifying set exists");
                                    }
                                }
                                Some(set) => {
                                    let ids: Vec<u32> = set.processors().iter().map(|p| p.id()).collect();
                                    let distinct: HashSet<u32> = ids.iter().copied().collect();
                                    let regions: HashSet<u32> = set.processors().iter().map(|p| p.memory_region_id()).collect();
                                    let mut bad = Vec::new();
                                    if ids.len() != count {
                                        bad.push(format!("returned {} processors", ids.len()));
                                    }
                                    if distinct.len() != ids.len() {
                                        bad.push("duplicates".to_string());
                                    }
                                    if policy == 2 && regions.len() != 1 {
                                        bad.push("not one region".to_string());
                                    }
                                    if policy == 4 && regions.len() != ids.len() {
                                        bad.push("regions not all different".to_string());
                                    }
                                    if !feasible {
                                        bad.push("returned a set although none qualifies".to_string());
                                    }
                                    if !bad.is_empty() {
                                        failures += 1;
                                        println!("FAILING-INPUT regions={sizes:?} policy={policy} take({count}) -> ids {ids:?}: {}", bad.join(", "));
                                    }
                                }
                            }
                            if failures >= 5 {
                                println!("runs={runs} failures>={failures}");
                                return;
                            }
                        }
                    }
                }
            }
        }
    }
    println!("runs={runs} failures={failures}");
}
