// Single-file Kani unit: the PreferDifferent arm of ProcessorSetBuilder::take, cut out of /repo on every run and run
// over stand-ins for its surroundings: the candidate table (a HashMap in the repository: only is_empty / len /
// values_mut / retain are observed), rand's `choose` (any element) and the processor type (an id). Verus rejects the
// iterator adaptors and closures of this arm; CBMC cannot get through hashbrown - hence stand-ins and small sizes.
use std::num::NonZero;

#[derive(Clone, Copy, PartialEq, Debug)]
pub struct Processor {
    id: u8,
    region: u8,
}
pub struct Rng;
pub fn rng() -> Rng {
    Rng
}
/// Fixed-capacity stand-in for `Vec` (capacity 8; only the operations the arm uses). The arm's own
/// `Vec::with_capacity` / `push` / `len` / `iter` / `remove` / `is_empty` calls resolve to this type.
#[derive(Clone, Copy)]
pub struct Vec<T: Copy> {
    items: [Option<T>; 8],
    n: usize,
}
impl<T: Copy> Vec<T> {
    pub fn new() -> Self {
        Vec { items: [None; 8], n: 0 }
    }
    pub fn with_capacity(_c: usize) -> Self {
        Self::new()
    }
    pub fn len(&self) -> usize {
        self.n
    }
    pub fn is_empty(&self) -> bool {
        self.n == 0
    }
    pub fn push(&mut self, t: T) {
        assert!(self.n < 8);
        self.items[self.n] = Some(t);
        self.n += 1;
    }
    pub fn remove(&mut self, index: usize) -> T {
        assert!(index < self.n, "Vec::remove index out of bounds");
        let r = self.items[index].unwrap();
        let mut i = index;
        while i + 1 < self.n {
            self.items[i] = self.items[i + 1];
            i += 1;
        }
        self.n -= 1;
        self.items[self.n] = None;
        r
    }
    pub fn get(&self, i: usize) -> T {
        assert!(i < self.n);
        self.items[i].unwrap()
    }
    pub fn iter(&self) -> VecIter<'_, T> {
        VecIter { v: self, i: 0 }
    }
}
pub struct VecIter<'a, T: Copy> {
    v: &'a Vec<T>,
    i: usize,
}
impl<'a, T: Copy> VecIter<'a, T> {
    pub fn enumerate(self) -> VecEnum<'a, T> {
        VecEnum { it: self }
    }
}
pub struct VecEnum<'a, T: Copy> {
    it: VecIter<'a, T>,
}
impl<'a, T: Copy> VecEnum<'a, T> {
    /// rand::seq::IteratorRandom::choose (assumed): some (index, element) of the list, none iff it is empty.
    pub fn choose(self, _rng: &mut Rng) -> Option<(usize, &'a T)> {
        let v = self.it.v;
        if v.n == 0 {
            return None;
        }
        let k: usize = kani::any();
        kani::assume(k < v.n);
        v.items[k].as_ref().map(|t| (k, t))
    }
}

/// Stand-in for HashMap<MemoryRegionId, Vec<Processor>> with at most 3 entries (iteration order fixed).
pub struct Candidates {
    lists: [Vec<Processor>; 3],
    present: [bool; 3],
}
impl Candidates {
    pub fn is_empty(&self) -> bool {
        !(self.present[0] || self.present[1] || self.present[2])
    }
    pub fn len(&self) -> usize {
        self.present[0] as usize + self.present[1] as usize + self.present[2] as usize
    }
    pub fn values_mut(&mut self) -> ValuesMut<'_> {
        ValuesMut { c: self, i: 0 }
    }
    pub fn retain(&mut self, mut f: impl FnMut(&u8, &mut Vec<Processor>) -> bool) {
        let mut i = 0;
        while i < 3 {
            if self.present[i] {
                let key = i as u8;
                if !f(&key, &mut self.lists[i]) {
                    self.present[i] = false;
                }
            }
            i += 1;
        }
    }
}
pub struct ValuesMut<'a> {
    c: &'a mut Candidates,
    i: usize,
}
impl<'a> Iterator for ValuesMut<'a> {
    type Item = &'a mut Vec<Processor>;
    fn next(&mut self) -> Option<Self::Item> {
        while self.i < 3 {
            let k = self.i;
            self.i += 1;
            if self.c.present[k] {
                let p: *mut Vec<Processor> = &mut self.c.lists[k];
                // SAFETY (stand-in): each entry is handed out at most once per iteration
                return Some(unsafe { &mut *p });
            }
        }
        None
    }
}

//@ extract block packages/many_cpus_impl/src/processor_set_builder.rs ProcessorSetBuilder::take from "let mut candidates = candidates;" to-block-end
//@ wrap
#[allow(clippy::all)]
fn take_prefer_different(candidates: Candidates, count: NonZero<usize>) -> Option<Vec<Processor>>
//@ rewrite-re "\n(\s*)processors\s*$" "\n\1let result = processors;"
//@ epilogue
    Some(result)
//@ end

#[cfg(kani)]
mod harness {
    use super::*;

    fn table(sizes: &[usize]) -> Candidates {
        let mut c = Candidates { lists: [Vec::new(); 3], present: [false; 3] };
        let mut id = 0u8;
        let mut r = 0;
        while r < sizes.len() {
            let mut k = 0;
            while k < sizes[r] {
                c.lists[r].push(Processor { id, region: r as u8 });
                id += 1;
                k += 1;
            }
            c.present[r] = true;
            r += 1;
        }
        c
    }

    /// take(n) with "prefer different regions": exactly n distinct candidates whenever n candidates exist (nothing
    /// otherwise), spread over as many regions as possible.
    fn contract(sizes: &[usize], count: usize) {
        let total: usize = sizes.iter().sum();
        let regions = sizes.len();
        let r = take_prefer_different(table(sizes), NonZero::new(count).unwrap());
        match r {
            None => assert!(total < count, "C09.prefer_different_returns_nothing_only_when_no_such_set_exists"),
            Some(v) => {
                assert!(v.len() == count, "C09.prefer_different_exactly_n");
                assert!(total >= count, "C09.prefer_different_no_set_from_too_few_candidates");
                let mut seen = [false; 8];
                let mut region_used = [false; 4];
                let mut i = 0;
                while i < v.len() {
                    let p = v.get(i);
                    assert!((p.id as usize) < total && !seen[p.id as usize], "C09.prefer_different_distinct_candidates");
                    seen[p.id as usize] = true;
                    region_used[p.region as usize] = true;
                    i += 1;
                }
                let mut used = 0;
                let mut k = 0;
                while k < 4 {
                    if region_used[k] {
                        used += 1;
                    }
                    k += 1;
                }
                assert!(used == if count < regions { count } else { regions }, "C09.prefer_different_as_many_regions_as_possible");
            }
        }
    }

    macro_rules! inst {
        ($name:ident, $sizes:expr, $count:expr) => {
            #[kani::proof]
            #[kani::unwind(8)]
            fn $name() {
                contract(&$sizes, $count);
            }
        };
    }
    inst!(prefer_different_1_3_take_2, [1, 3], 2);
    inst!(prefer_different_1_3_take_4, [1, 3], 4);
    inst!(prefer_different_1_3_take_5, [1, 3], 5);
    inst!(prefer_different_1_1_2_take_4, [1, 1, 2], 4);
    inst!(prefer_different_2_2_take_3, [2, 2], 3);
}
fn main() {}
