// Verus unit: the affinity mask handed to the kernel (C10), and masks as width-independent sets (C11).
use vstd::prelude::*;
use std::num::NonZero;
verus! {
global size_of usize == 8;

// ---------------- preamble ----------------
type ProcessorId = u32;
#[allow(non_camel_case_types)]
type c_ulong = u64;     // x86_64-unknown-linux-gnu (assumed; cross-checked by Kani harness bit_position_contract on the real libc type)

pub fn vmax(a: usize, b: usize) -> (r: usize) ensures r == (if a >= b { a } else { b }) { if a >= b { a } else { b } }
pub assume_specification[ u64::checked_shl ](x: u64, s: u32) -> (r: Option<u64>)
    ensures s < 64 ==> r == Some((x << s) as u64), s >= 64 ==> r.is_none();

pub open spec fn bit(b: u64, i: u64) -> bool { (b >> i) & 1 == 1 }

//@ extract item packages/many_cpus_impl/src/pal/linux/cpu_mask.rs const WORD_BITS
//@ end
//@ extract item packages/many_cpus_impl/src/pal/linux/cpu_mask.rs const EMPTY_WORD
//@ end
//@ extract item packages/many_cpus_impl/src/pal/linux/cpu_mask.rs const LOW_BIT
//@ end
//@ extract item packages/many_cpus_impl/src/pal/linux/cpu_mask.rs struct BitPosition
//@ end
// R4: SmallVec<[c_ulong; INLINE_WORDS]> -> Vec<c_ulong> (inline capacity is not observable through the API used)
//@ extract item packages/many_cpus_impl/src/pal/linux/cpu_mask.rs struct CpuMask
//@ rewrite "SmallVec<[c_ulong; INLINE_WORDS]>" "Vec<c_ulong>"
//@ end

impl BitPosition {
//@ extract fn packages/many_cpus_impl/src/pal/linux/cpu_mask.rs BitPosition::of
//@ ret r
//@ spec
        ensures r.word == processor_id / 64, r.offset == processor_id % 64,
//@ end

//@ extract fn packages/many_cpus_impl/src/pal/linux/cpu_mask.rs BitPosition::bit
//@ ret r
//@ spec
        requires self.offset < 64,
        ensures r == 1u64 << (self.offset as u64),
//@ end
}

impl CpuMask {
    /// Abstract view: the set of processor ids in the mask.
    pub closed spec fn has(&self, id: int) -> bool {
        id >= 0 && id / 64 < self.words.len() && bit(self.words[id / 64], (id % 64) as u64)
    }
    pub closed spec fn width(&self) -> int { self.words.len() as int }

//@ extract fn packages/many_cpus_impl/src/pal/linux/cpu_mask.rs CpuMask::with_words
//@ rewrite "smallvec![EMPTY_WORD; words.get()]" "vec![EMPTY_WORD; words.get()]"
//@ ret r
//@ spec
        ensures r.width() == words@, forall|id: int| !#[trigger] r.has(id),
//@ before "Self {"
        proof { assert(forall|j: u64| 0 <= j < 64 ==> !#[trigger] bit(0u64, j)) by (bit_vector); }
//@ end

//@ extract fn packages/many_cpus_impl/src/pal/linux/cpu_mask.rs CpuMask::len_bytes
//@ ret r
//@ spec
        requires self.width() * 8 <= usize::MAX,
        ensures r == self.width() * 8,
//@ end

//@ extract fn packages/many_cpus_impl/src/pal/linux/cpu_mask.rs CpuMask::insert
//@ rewrite "self.words.len().max(required_words)" "vmax(self.words.len(), required_words)"
//@ spec
        ensures
            // set insertion, for every id and every width
            final(self).has(processor_id as int),
            forall|id: int| id != processor_id ==> #[trigger] final(self).has(id) == old(self).has(id),
            // the width never shrinks and covers the id
            final(self).width() >= old(self).width(),
            final(self).width() >= processor_id / 64 + 1,
            final(self).width() == (if old(self).width() >= processor_id / 64 + 1 { old(self).width() } else { processor_id / 64 + 1 }),
//@ before "*word |= position.bit();"
        proof {
            let w = *word; let k = position.offset as u64;
            assert(forall|j: u64| 0 <= j < 64 ==> #[trigger] bit(w | (1u64 << k), j) == (bit(w, j) || j == k)) by (bit_vector) requires k < 64;
            assert(forall|j: u64| 0 <= j < 64 ==> !#[trigger] bit(0u64, j)) by (bit_vector);
        }
//@ end

    /// CpuMask::new() = Self::with_words(Self::default_words()) in the repository; with_words is verified above to
    /// return the empty set for every width, default_words() is `NonZero::new(INLINE_WORDS).expect(..)`. Assumed here
    /// (one line) so that the pin region below can start at the mask's creation.
    #[verifier::external_body]
    pub fn new() -> (r: Self)
        ensures forall|id: int| !#[trigger] r.has(id),
    {
        unimplemented!()
    }

//@ extract fn packages/many_cpus_impl/src/pal/linux/cpu_mask.rs CpuMask::word
//@ rewrite "self.words.get(index).copied().unwrap_or(EMPTY_WORD)" "match self.words.get(index) { Some(w) => *w, None => EMPTY_WORD }"
//@ ret r
//@ spec
        ensures r == (if index < self.width() { self.words[index as int] } else { 0u64 }),
//@ end
}

// ---------------- region: pin_current_thread_to's mask-building loop ----------------
// Local rewrite: `processor.as_ref().as_target().id` (projection of a platform processor to its id) -> `*processor`
// over a Vec of ids. The region starts at the creation of the mask (`let mut mask = CpuMask::new();`), so that the
// mask handed to the kernel is built from nothing but this call's processors (seed C10-c reused a per-thread buffer).
//@ extract block packages/many_cpus_impl/src/pal/linux/platform.rs Platform for BuildTargetPlatform::pin_current_thread_to from "let mut mask = CpuMask::new();" to "for processor in processors.iter() {"
//@ wrap
fn pin_mask_loop(processors: &Vec<ProcessorId>) -> (r: CpuMask)
    ensures
        // the mask passed to sched_setaffinity holds exactly the ids of `processors`
        forall|id: int| #[trigger] r.has(id) <==> (exists|i: int| 0 <= i < processors@.len() && processors@[i] as int == id),
//@ rewrite "processor.as_ref().as_target().id" "*processor"
//@ loop 1
        invariant
            forall|id: int| #[trigger] mask.has(id) <==> (exists|i: int| 0 <= i < iter.index@ && processors@[i] as int == id),
//@ rewrite "for processor in processors.iter()" "for processor in iter: processors.iter()"
//@ after "mask.insert("
            proof {
                let cur = iter.index@;
                let ghost_id = processors@[cur] as int;
                assert forall|id: int| #[trigger] mask.has(id) <==> (exists|i: int| 0 <= i < cur + 1 && processors@[i] as int == id) by {
                    if id == ghost_id { assert(0 <= cur < cur + 1 && processors@[cur] as int == id); }
                    else {
                        if exists|i: int| 0 <= i < cur + 1 && processors@[i] as int == id {
                            let i = choose|i: int| 0 <= i < cur + 1 && processors@[i] as int == id;
                            assert(i < cur);
                        }
                    }
                }
            }
//@ epilogue
    mask
//@ end

} // verus!
fn main() {}
