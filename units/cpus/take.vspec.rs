// Verus unit: selection regions of ProcessorSetBuilder::take / take_all (C09).
// Everything before a region (building `candidates`, ordering the regions) is an explicit, UNCHECKED precondition.
use vstd::prelude::*;
use std::collections::VecDeque;
use std::collections::HashMap;
use std::num::NonZero;
verus! {
global size_of usize == 8;

// ---------------- preamble: assumed contracts on dependencies ----------------
// A processor is an opaque value; only equality and clone matter to the selection logic.
#[verifier::external_body]
pub struct Processor { _p: u8 }
impl Clone for Processor { #[verifier::external_body] fn clone(&self) -> (r: Self) ensures r == *self { Processor{_p: self._p} } }
type MemoryRegionId = u32;

#[verifier::external_body]
pub struct Rng { _p: u8 }
#[verifier::external_body]
pub fn rng() -> Rng { Rng{_p:0} }

/// `rand::seq::IndexedRandom::sample(k)` (assumed, from rand's documentation): yields min(k, len) elements taken at
/// pairwise distinct indices of the slice.
#[verifier::external_body]
pub struct Sampled<'a> { _p: &'a u8 }
pub uninterp spec fn sampled_view(s: Sampled<'_>) -> Seq<Processor>;

pub open spec fn distinct_subseq(sub: Seq<Processor>, of: Seq<Processor>) -> bool {
    exists|idx: Seq<int>| idx.len() == sub.len()
        && (forall|i: int| 0 <= i < idx.len() ==> 0 <= #[trigger] idx[i] < of.len() && sub[i] == of[idx[i]])
        && (forall|i: int, j: int| 0 <= i < j < idx.len() ==> idx[i] != idx[j])
}

pub trait IndexedRandomShim {
    spec fn sview(&self) -> Seq<Processor>;
    fn sample<'a>(&'a self, rng: &mut Rng, amount: usize) -> (r: Sampled<'a>)
        ensures sampled_view(r).len() == (if amount <= self.sview().len() { amount as int } else { self.sview().len() as int }),
                distinct_subseq(sampled_view(r), self.sview());
}
impl IndexedRandomShim for Vec<Processor> {
    open spec fn sview(&self) -> Seq<Processor> { self@ }
    #[verifier::external_body]
    fn sample<'a>(&'a self, rng: &mut Rng, amount: usize) -> (r: Sampled<'a>) { unimplemented!() }
}
impl<'a> Sampled<'a> {
    #[verifier::external_body]
    pub fn cloned(self) -> (r: Sampled<'a>) ensures sampled_view(r) == sampled_view(self) { self }
    /// itertools::Itertools::collect_vec (assumed): the elements in order.
    #[verifier::external_body]
    pub fn collect_vec(self) -> (r: Vec<Processor>) ensures r@ == sampled_view(self) { unimplemented!() }
}
/// `Vec::extend(iter)` (assumed): appends the iterator's elements in order. (rewrite R5)
#[verifier::external_body]
pub fn vec_extend(v: &mut Vec<Processor>, it: Sampled<'_>)
    ensures final(v)@ == old(v)@ + sampled_view(it) { unimplemented!() }

/// `rand::seq::IndexedRandom::choose` on a Vec of region references (assumed): an element iff non-empty.
#[verifier::external_body]
pub fn choose_region<'a>(v: &'a Vec<&'a MemoryRegionId>, rng: &mut Rng) -> (r: Option<&'a &'a MemoryRegionId>)
    ensures
        v@.len() == 0 ==> r.is_none(),
        v@.len() > 0 ==> r.is_some() && v@.contains(*r.unwrap()),
{ unimplemented!() }

pub fn vmin(a: usize, b: usize) -> (r: usize) ensures r == (if a <= b { a } else { b }) { if a <= b { a } else { b } }

// ---------------- spec layer ----------------
/// `p` is a candidate of some region.
pub open spec fn is_candidate(p: Processor, candidates: Map<MemoryRegionId, Vec<Processor>>) -> bool {
    exists|k: MemoryRegionId| candidates.contains_key(k) && (#[trigger] candidates[k])@.contains(p)
}
/// Every element of `s` is a candidate (of some region).
pub open spec fn all_candidates(s: Seq<Processor>, candidates: Map<MemoryRegionId, Vec<Processor>>) -> bool {
    forall|i: int| 0 <= i < s.len() ==> is_candidate(#[trigger] s[i], candidates)
}

/// No processor appears twice in the candidate table (the builder groups one Vec of distinct processors by region).
pub open spec fn candidates_injective(candidates: Map<MemoryRegionId, Vec<Processor>>) -> bool {
    forall|k1: MemoryRegionId, j1: int, k2: MemoryRegionId, j2: int|
        candidates.contains_key(k1) && candidates.contains_key(k2) && 0 <= j1 < candidates[k1]@.len() && 0 <= j2 < candidates[k2]@.len()
        && #[trigger] candidates[k1]@[j1] == #[trigger] candidates[k2]@[j2] ==> k1 == k2 && j1 == j2
}

/// `p` lives in a region that is not contained in `remaining`.
pub open spec fn from_consumed(p: Processor, candidates: Map<MemoryRegionId, Vec<Processor>>, remaining: Seq<MemoryRegionId>) -> bool {
    exists|k: MemoryRegionId| candidates.contains_key(k) && !remaining.contains(k) && (#[trigger] candidates[k])@.contains(p)
}
pub open spec fn from_consumed_regions(s: Seq<Processor>, candidates: Map<MemoryRegionId, Vec<Processor>>, remaining: Seq<MemoryRegionId>) -> bool {
    forall|i: int| 0 <= i < s.len() ==> from_consumed(#[trigger] s[i], candidates, remaining)
}

proof fn lemma_distinct_subseq_facts(sub: Seq<Processor>, of: Seq<Processor>)
    requires distinct_subseq(sub, of),
    ensures
        forall|i: int| 0 <= i < sub.len() ==> of.contains(#[trigger] sub[i]),
        (forall|a: int, b: int| 0 <= a < b < of.len() ==> of[a] != of[b]) ==> sub.no_duplicates(),
{
    let idx = choose|idx: Seq<int>| idx.len() == sub.len()
        && (forall|i: int| 0 <= i < idx.len() ==> 0 <= #[trigger] idx[i] < of.len() && sub[i] == of[idx[i]])
        && (forall|i: int, j: int| 0 <= i < j < idx.len() ==> idx[i] != idx[j]);
    assert forall|i: int| 0 <= i < sub.len() implies of.contains(#[trigger] sub[i]) by {
        assert(of[idx[i]] == sub[i]);
    }
    if forall|a: int, b: int| 0 <= a < b < of.len() ==> of[a] != of[b] {
        assert forall|i: int, j: int| 0 <= i < sub.len() && 0 <= j < sub.len() && i != j implies sub[i] != sub[j] by {
            assert(idx[i] != idx[j]) by { if i < j { } else { } }
            if idx[i] < idx[j] { assert(of[idx[i]] != of[idx[j]]); } else { assert(of[idx[j]] != of[idx[i]]); }
        }
    }
}

// ---------------- region: take(), PreferSame arm, the selection loop ----------------
//@ extract block packages/many_cpus_impl/src/processor_set_builder.rs ProcessorSetBuilder::take from "let mut processors: Vec<Processor> = Vec::with_capacity(count);" to "while processors.len() < count {"
//@ wrap
fn take_prefer_same_loop(candidates: &HashMap<MemoryRegionId, Vec<Processor>>, mut remaining_memory_regions: VecDeque<MemoryRegionId>, count: usize) -> (r: Option<Vec<Processor>>)
    requires
        vstd::std_specs::hash::obeys_key_model::<MemoryRegionId>(),
        // unchecked preconditions (established by the code before the region):
        forall|i: int| 0 <= i < remaining_memory_regions@.len() ==> candidates@.contains_key(#[trigger] remaining_memory_regions@[i]),
        remaining_memory_regions@.no_duplicates(),
        candidates_injective(candidates@),
        count > 0,
    ensures
        // exactly what was asked for, or nothing
        r.is_some() ==> r.unwrap()@.len() == count,
        r.is_some() ==> all_candidates(r.unwrap()@, candidates@),
        r.is_some() ==> r.unwrap()@.no_duplicates(),
//@ loop 1
        invariant
            processors@.len() <= count,
            forall|i: int| 0 <= i < remaining_memory_regions@.len() ==> candidates@.contains_key(#[trigger] remaining_memory_regions@[i]),
            remaining_memory_regions@.no_duplicates(),
            candidates_injective(candidates@),
            from_consumed_regions(processors@, candidates@, remaining_memory_regions@),
            processors@.no_duplicates(),
        decreases remaining_memory_regions@.len(),
//@ rewrite? "count.min(processors_in_region.len())" "vmin(count, processors_in_region.len())"
//@ rewrite-re? "count\s*\.saturating_sub\(processors\.len\(\)\)\s*\.min\(processors_in_region\.len\(\)\)" "vmin(count.saturating_sub(processors.len()), processors_in_region.len())"
//@ rewrite "processors.extend(region_processors);" "vec_extend(&mut processors, region_processors);"
//@ before "let memory_region = remaining_memory_regions.pop_front()?;"
        let ghost rem0 = remaining_memory_regions@;
        let ghost procs0 = processors@;
//@ after "processors.extend(region_processors);"
        proof {
            let sv = sampled_view(region_processors);
            let region = candidates@[memory_region]@;
            assert(rem0[0] == memory_region);
            assert(remaining_memory_regions@ == rem0.subrange(1, rem0.len() as int));
            // the region's own list has pairwise distinct entries
            assert forall|a: int, b: int| 0 <= a < b < region.len() implies region[a] != region[b] by {
                if region[a] == region[b] { assert(candidates@[memory_region]@[a] == candidates@[memory_region]@[b]); }
            }
            lemma_distinct_subseq_facts(sv, region);
            // remaining regions stay distinct keys
            assert forall|i: int| 0 <= i < remaining_memory_regions@.len() implies candidates@.contains_key(#[trigger] remaining_memory_regions@[i]) by {
                assert(remaining_memory_regions@[i] == rem0[i + 1]);
            }
            assert(remaining_memory_regions@.no_duplicates()) by {
                assert forall|i: int, j: int| 0 <= i < remaining_memory_regions@.len() && 0 <= j < remaining_memory_regions@.len() && i != j
                    implies remaining_memory_regions@[i] != remaining_memory_regions@[j] by {
                    assert(rem0[i + 1] != rem0[j + 1]);
                }
            }
            assert(!remaining_memory_regions@.contains(memory_region)) by {
                if remaining_memory_regions@.contains(memory_region) {
                    let i = choose|i: int| 0 <= i < remaining_memory_regions@.len() && remaining_memory_regions@[i] == memory_region;
                    assert(rem0[i + 1] == rem0[0]);
                }
            }
            // membership of the new elements
            assert forall|i: int| 0 <= i < processors@.len() implies from_consumed(#[trigger] processors@[i], candidates@, remaining_memory_regions@) by {
                if i < procs0.len() {
                    assert(processors@[i] == procs0[i]);
                    let k = choose|k: MemoryRegionId| candidates@.contains_key(k) && !rem0.contains(k) && (#[trigger] candidates@[k])@.contains(procs0[i]);
                    assert(from_consumed(procs0[i], candidates@, rem0));
                    assert(!remaining_memory_regions@.contains(k)) by {
                        if remaining_memory_regions@.contains(k) {
                            let j = choose|j: int| 0 <= j < remaining_memory_regions@.len() && remaining_memory_regions@[j] == k;
                            assert(rem0[j + 1] == k);
                        }
                    }
                    assert(candidates@.contains_key(k) && !remaining_memory_regions@.contains(k) && candidates@[k]@.contains(processors@[i]));
                } else {
                    assert(processors@[i] == sv[i - procs0.len()]);
                    assert(region.contains(sv[i - procs0.len()]));
                    assert(candidates@.contains_key(memory_region) && !remaining_memory_regions@.contains(memory_region) && candidates@[memory_region]@.contains(processors@[i]));
                }
            }
            // distinctness: old elements come from regions not in rem0 (so not `memory_region`), new ones from `memory_region`
            assert(processors@.no_duplicates()) by {
                assert forall|i: int, j: int| 0 <= i < processors@.len() && 0 <= j < processors@.len() && i != j implies processors@[i] != processors@[j] by {
                    let n0 = procs0.len() as int;
                    if i < n0 && j < n0 {
                        assert(procs0[i] != procs0[j]);
                    } else if i >= n0 && j >= n0 {
                        assert(sv[i - n0] != sv[j - n0]);
                    } else {
                        let (o, nw) = if i < n0 { (i, j) } else { (j, i) };
                        assert(from_consumed(procs0[o], candidates@, rem0));
                        let k = choose|k: MemoryRegionId| candidates@.contains_key(k) && !rem0.contains(k) && (#[trigger] candidates@[k])@.contains(procs0[o]);
                        assert(k != memory_region) by { if k == memory_region { assert(rem0[0] == memory_region); assert(rem0.contains(memory_region)); } }
                        let jo = choose|jo: int| 0 <= jo < candidates@[k]@.len() && candidates@[k]@[jo] == procs0[o];
                        assert(region.contains(sv[nw - n0]));
                        let jn = choose|jn: int| 0 <= jn < region.len() && region[jn] == sv[nw - n0];
                        if procs0[o] == sv[nw - n0] {
                            assert(candidates@[k]@[jo] == candidates@[memory_region]@[jn]);
                        }
                    }
                }
            }
        }
//@ epilogue
    proof {
        assert forall|i: int| 0 <= i < processors@.len() implies is_candidate(#[trigger] processors@[i], candidates@) by {
            assert(from_consumed(processors@[i], candidates@, remaining_memory_regions@));
            let k = choose|k: MemoryRegionId| candidates@.contains_key(k) && !remaining_memory_regions@.contains(k) && (#[trigger] candidates@[k])@.contains(processors@[i]);
            assert(candidates@.contains_key(k) && candidates@[k]@.contains(processors@[i]));
        }
    }
    Some(processors)
//@ end

// ---------------- region: take(), Any arm (after `all_processors` has been flattened) ----------------
//@ extract block packages/many_cpus_impl/src/processor_set_builder.rs ProcessorSetBuilder::take from "if all_processors.len() < count.get() {" to-block-end
//@ wrap
fn take_any_tail(all_processors: Vec<Processor>, count: NonZero<usize>) -> (r: Option<Vec<Processor>>)
    ensures
        // nothing iff there are not enough candidates
        r.is_none() <==> all_processors@.len() < count@,
        r.is_some() ==> r.unwrap()@.len() == count@,
        r.is_some() ==> distinct_subseq(r.unwrap()@, all_processors@),
//@ rewrite-re "\n(\s*)all_processors\s*\.sample" "\n\1let result = all_processors.sample"
//@ epilogue
    ;
    Some(result)
//@ end

// ---------------- region: take(), RequireSame arm (after the qualifying regions were filtered) ----------------
//@ extract block packages/many_cpus_impl/src/processor_set_builder.rs ProcessorSetBuilder::take from "let memory_region = qualifying_memory_regions.choose(&mut rng())?;" to-block-end
//@ wrap
fn take_require_same_tail(candidates: &HashMap<MemoryRegionId, Vec<Processor>>, qualifying_memory_regions: Vec<&MemoryRegionId>, count: NonZero<usize>) -> (r: Option<Vec<Processor>>)
    requires
        vstd::std_specs::hash::obeys_key_model::<MemoryRegionId>(),
        // unchecked precondition (the filter_map before the region): qualifying regions are keys with >= count candidates
        forall|i: int| 0 <= i < qualifying_memory_regions@.len() ==> candidates@.contains_key(*#[trigger] qualifying_memory_regions@[i])
            && candidates@[*qualifying_memory_regions@[i]]@.len() >= count@,
    ensures
        r.is_none() <==> qualifying_memory_regions@.len() == 0,
        // all from ONE region, exactly count, distinct positions
        r.is_some() ==> r.unwrap()@.len() == count@
            && exists|k: MemoryRegionId| candidates@.contains_key(k) && distinct_subseq(r.unwrap()@, (#[trigger] candidates@[k])@),
//@ rewrite "qualifying_memory_regions.choose(&mut rng())?" "choose_region(&qualifying_memory_regions, &mut rng())?"
//@ rewrite-re "\n(\s*)processors\s*\.sample" "\n\1let result = processors.sample"
//@ after "let memory_region = qualifying_memory_regions.choose(&mut rng())?;"
    proof {
        let i = choose|i: int| 0 <= i < qualifying_memory_regions@.len() && qualifying_memory_regions@[i] == *memory_region;
        assert(candidates@.contains_key(*qualifying_memory_regions@[i]));
    }
//@ epilogue
    ;
    proof { assert(candidates@.contains_key(**memory_region) && distinct_subseq(result@, candidates@[**memory_region]@)); }
    Some(result)
//@ end

// ---------------- region: reduce_processors_until_under_quota (after the quota was looked up) ----------------
//@ extract block packages/many_cpus_impl/src/processor_set_builder.rs ProcessorSetBuilder::reduce_processors_until_under_quota from "let mut processors = processors;" to-block-end
//@ wrap
fn reduce_until_under_quota_tail(processors: Vec<Processor>, max_count: usize) -> (r: Vec<Processor>)
    ensures
        r@.len() == (if processors@.len() <= max_count { processors@.len() } else { max_count as nat }),
        // a prefix of the input: nothing new, nothing reordered, no duplicates introduced
        r@ == processors@.subrange(0, r@.len() as int),
//@ loop 1
        invariant
            processors@.len() <= old_processors@.len(),
            processors@ == old_processors@.subrange(0, processors@.len() as int),
            processors@.len() >= (if old_processors@.len() <= max_count { old_processors@.len() } else { max_count as nat }),
        decreases processors@.len(),
//@ rewrite "let mut processors = processors;" "let ghost old_processors = processors; let mut processors = processors;"
//@ end

} // verus!
fn main() {}
