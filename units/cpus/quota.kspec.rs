// Single-file Kani unit: float arithmetic regions extracted from /repo on every run (C09 quota clamp, C11 quota min).
// Verus has no floats; the real methods need a whole platform object, so the regions are cut out like Verus regions.

//@ extract block packages/many_cpus_impl/src/processor_set_builder.rs ProcessorSetBuilder::resource_quota_processor_count_limit from "let max_processor_count = max_processor_time.floor() as usize;" to "Some(max_processor_count.max(1))"
//@ wrap
#[allow(clippy::all)]
fn quota_count_limit(max_processor_time: f64) -> Option<usize>
//@ end

// The whole body of Platform::max_processor_time, over a stand-in that offers exactly the observers the body may
// consult: the REPORTED processors (online and allowed: `get_all_processors()`), the cached list that also holds
// inactive processors (`get_all_processors_impl()`), and the cgroup quota.
pub struct PlatformStub {
    reported: Vec<u32>,
    including_inactive: Vec<u32>,
    cgroup: Option<f64>,
}
impl PlatformStub {
    fn get_all_processors(&self) -> Vec<u32> {
        self.reported.clone()
    }
    fn get_all_processors_impl(&self) -> &Vec<u32> {
        &self.including_inactive
    }
    fn cgroups_max_processor_time(&self) -> Option<f64> {
        self.cgroup
    }
//@ extract fn packages/many_cpus_impl/src/pal/linux/platform.rs Platform for BuildTargetPlatform::max_processor_time
//@ end
}

#[cfg(kani)]
mod harness {
    use super::*;

    /// For every f64 quota: the limit is max(1, floor(q)) with the cast's saturating / NaN->0 behaviour explicit.
    #[kani::proof]
    fn quota_count_limit_contract() {
        let q: f64 = kani::any();
        let r = quota_count_limit(q).expect("C09.quota_limit_is_some");
        assert!(r >= 1, "C09.quota_limit_at_least_one");
        if q.is_nan() || q < 2.0 {
            assert!(r == 1, "C09.quota_below_two_is_one");
        } else if q >= 18446744073709551616.0 {
            assert!(r == usize::MAX, "C09.quota_saturates");
        } else {
            // floor: r <= q < r + 1
            assert!((r as f64) <= q, "C09.quota_never_exceeded (rounds down)");
            assert!(q - (r as f64) < 1.0 || r as f64 >= 9007199254740992.0, "C09.quota_rounds_down_by_less_than_one");
        }
    }

    /// The processor-time quota is the smaller of the REPORTED processor count and the cgroup quota/period.
    fn max_processor_time_contract(reported: usize, inactive: usize) {
        let mut r = Vec::with_capacity(reported);
        let mut all = Vec::with_capacity(reported + inactive);
        let mut i = 0;
        while i < reported + inactive {
            if i < reported {
                r.push(i as u32);
            }
            all.push(i as u32);
            i += 1;
        }
        let cg: f64 = kani::any();
        let has: bool = kani::any();
        let p = PlatformStub { reported: r, including_inactive: all, cgroup: if has { Some(cg) } else { None } };
        let got = p.max_processor_time();
        let count = reported as f64;
        if !has || cg.is_nan() {
            assert!(got == count, "C11.quota_without_cgroup_is_reported_processor_count");
        } else {
            assert!(got == if cg < count { cg } else { count }, "C11.quota_is_min_of_reported_count_and_cgroup");
        }
    }
    #[kani::proof]
    #[kani::unwind(8)]
    fn max_processor_time_is_min() {
        max_processor_time_contract(1, 0);
        max_processor_time_contract(2, 2);
        max_processor_time_contract(3, 1);
    }
}
fn main() {}
