// Single-file Kani unit: float arithmetic regions extracted from /repo on every run (C09 quota clamp, C11 quota min).
// Verus has no floats; the real methods need a whole platform object, so the regions are cut out like Verus regions.

//@ extract block packages/many_cpus_impl/src/processor_set_builder.rs ProcessorSetBuilder::resource_quota_processor_count_limit from "let max_processor_count = max_processor_time.floor() as usize;" to "Some(max_processor_count.max(1))"
//@ wrap
#[allow(clippy::all)]
fn quota_count_limit(max_processor_time: f64) -> Option<usize>
//@ end

//@ extract block packages/many_cpus_impl/src/pal/linux/platform.rs Platform for BuildTargetPlatform::max_processor_time from "if let Some(cgroup_max_processor_time) = self.cgroups_max_processor_time() {" to-block-end
//@ wrap
fn max_processor_time_tail(max_processor_time: f64, cgroups: Option<f64>) -> f64
//@ rewrite "self.cgroups_max_processor_time()" "cgroups"
//@ end

#[cfg(kani)]
mod harness {
    use super::*;

    /// For every f64 quota: the limit is max(1, floor(q)) with the cast's saturating / NaN->0 behaviour explicit.
    #[kani::proof]
    fn quota_count_limit_contract() {
        let q: f64 = kani::any();
        let r = quota_count_limit(q).expect("C09.quota_limit_is_some");
        assert!(r >= 1, "C09.quota_limit_at_least_one");
        if q.is_nan() || q < 2.0 {
            assert!(r == 1, "C09.quota_below_two_is_one");
        } else if q >= 18446744073709551616.0 {
            assert!(r == usize::MAX, "C09.quota_saturates");
        } else {
            // floor: r <= q < r + 1
            assert!((r as f64) <= q, "C09.quota_never_exceeded (rounds down)");
            assert!(q - (r as f64) < 1.0 || r as f64 >= 9007199254740992.0, "C09.quota_rounds_down_by_less_than_one");
        }
    }

    /// The processor-time quota is the smaller of the processor count and the cgroup quota/period.
    #[kani::proof]
    fn max_processor_time_is_min() {
        let n: u16 = kani::any();
        kani::assume(n >= 1);
        let count = n as f64;
        let cg: f64 = kani::any();
        let has: bool = kani::any();
        let r = max_processor_time_tail(count, if has { Some(cg) } else { None });
        if !has || cg.is_nan() {
            assert!(r == count, "C11.quota_without_cgroup_is_processor_count");
        } else {
            assert!(r == if cg < count { cg } else { count }, "C11.quota_is_min_of_count_and_cgroup");
        }
    }
}
fn main() {}
