// Single-file Kani unit: the selection `match` of ProcessorSetBuilder::take_all, cut out of /repo on every run and
// run over stand-ins for its surroundings: the candidate table (a HashMap in the repository: only values / keys /
// get are observed), rand's `choose` (any element) and the processor type (an id + region).
#![allow(dead_code)]

#[derive(Clone, Copy, PartialEq, Debug)]
pub struct Processor {
    id: u8,
    region: u8,
}
pub struct Rng;
pub fn rng() -> Rng {
    Rng
}
/// rand::seq::IteratorRandom::choose (assumed): some element of the iterator, none iff it is empty.
pub trait IterChoose: Iterator + Sized {
    fn choose(mut self, _rng: &mut Rng) -> Option<Self::Item> {
        let skip: usize = kani::any();
        kani::assume(skip < 4);
        let mut picked = self.next()?;
        let mut i = 0;
        while i < skip {
            match self.next() {
                Some(x) => picked = x,
                None => break,
            }
            i += 1;
        }
        Some(picked)
    }
}
impl<I: Iterator> IterChoose for I {}
/// rand::seq::IndexedRandom::choose (assumed): some element of the slice, none iff it is empty.
pub trait SliceChoose<T> {
    fn choose(&self, rng: &mut Rng) -> Option<&T>;
}
impl<T> SliceChoose<T> for Vec<T> {
    fn choose(&self, _rng: &mut Rng) -> Option<&T> {
        if self.is_empty() {
            return None;
        }
        let k: usize = kani::any();
        kani::assume(k < self.len());
        self.get(k)
    }
}

/// Stand-in for HashMap<MemoryRegionId, Vec<Processor>> (iteration order arbitrary but fixed).
pub struct Candidates {
    entries: Vec<(u8, Vec<Processor>)>,
}
impl Candidates {
    pub fn values(&self) -> impl Iterator<Item = &Vec<Processor>> {
        self.entries.iter().map(|e| &e.1)
    }
    pub fn keys(&self) -> impl Iterator<Item = &u8> {
        self.entries.iter().map(|e| &e.0)
    }
    pub fn get(&self, k: &u8) -> Option<&Vec<Processor>> {
        self.entries.iter().find(|e| e.0 == *k).map(|e| &e.1)
    }
}

#[derive(Clone, Copy, Debug, Default, Eq, Hash, PartialEq)] // the repository's derive line (attributes before an item are not extracted)
//@ extract item packages/many_cpus_impl/src/processor_set_builder.rs enum MemoryRegionSelector
//@ end

pub struct BuilderStub {
    memory_region_selector: MemoryRegionSelector,
}
impl BuilderStub {
//@ extract block packages/many_cpus_impl/src/processor_set_builder.rs ProcessorSetBuilder::take_all from "let processors = match self.memory_region_selector {"
//@ wrap
    #[allow(clippy::all)]
    fn take_all_select(&self, candidates: Candidates) -> Vec<Processor>
//@ epilogue
        processors
//@ end
}

#[cfg(kani)]
mod harness {
    use super::*;

    fn table(sizes: &[usize]) -> Candidates {
        let mut entries = Vec::new();
        let mut id = 0u8;
        let mut r = 0;
        while r < sizes.len() {
            let mut v = Vec::new();
            let mut k = 0;
            while k < sizes[r] {
                v.push(Processor { id, region: r as u8 });
                id += 1;
                k += 1;
            }
            entries.push((r as u8, v));
            r += 1;
        }
        Candidates { entries }
    }

    /// take_all returns a largest qualifying set: all candidates; all of ONE region when one region is required;
    /// exactly one per region when different regions are required. (The quota cut afterwards is
    /// reduce_processors_until_under_quota, proved by the Verus unit.)
    fn contract(sizes: &[usize], selector: MemoryRegionSelector) {
        let total: usize = sizes.iter().sum();
        let b = BuilderStub { memory_region_selector: selector };
        let v = b.take_all_select(table(sizes));
        let mut seen = [false; 8];
        let mut per_region = [0usize; 4];
        let mut i = 0;
        while i < v.len() {
            let p = v[i];
            assert!((p.id as usize) < total && !seen[p.id as usize], "C09.take_all_distinct_candidates");
            seen[p.id as usize] = true;
            per_region[p.region as usize] += 1;
            i += 1;
        }
        match selector {
            MemoryRegionSelector::Any | MemoryRegionSelector::PreferSame | MemoryRegionSelector::PreferDifferent => {
                assert!(v.len() == total, "C09.take_all_returns_all_candidates");
            }
            MemoryRegionSelector::RequireSame => {
                let mut regions_used = 0;
                let mut r = 0;
                while r < sizes.len() {
                    if per_region[r] > 0 {
                        regions_used += 1;
                        assert!(per_region[r] == sizes[r], "C09.take_all_same_region_returns_the_whole_region");
                    }
                    r += 1;
                }
                assert!(regions_used == 1, "C09.take_all_same_region_uses_exactly_one_region");
            }
            MemoryRegionSelector::RequireDifferent => {
                let mut r = 0;
                while r < sizes.len() {
                    assert!(per_region[r] == 1, "C09.take_all_different_regions_one_per_region");
                    r += 1;
                }
                assert!(v.len() == sizes.len(), "C09.take_all_different_regions_one_per_region");
            }
        }
    }

    macro_rules! inst {
        ($name:ident, $sizes:expr, $sel:expr) => {
            #[kani::proof]
            #[kani::unwind(8)]
            fn $name() {
                contract(&$sizes, $sel);
            }
        };
    }
    inst!(take_all_any_2_1, [2, 1], MemoryRegionSelector::Any);
    inst!(take_all_prefer_same_1_2, [1, 2], MemoryRegionSelector::PreferSame);
    inst!(take_all_require_same_1_2_1, [1, 2, 1], MemoryRegionSelector::RequireSame);
    inst!(take_all_require_different_2_1_2, [2, 1, 2], MemoryRegionSelector::RequireDifferent);
}
fn main() {}
