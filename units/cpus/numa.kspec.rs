// Single-file Kani unit: Platform::get_numa_nodes (which processors each NUMA node lists), cut out of /repo on every
// run and run over stand-ins for its surroundings: the filesystem facade (node -> optional cpulist text), the
// cpulist parser (text -> ids; the real parser is string code neither verifier can digest), nonempty::NonEmpty and
// the HashMap it collects into. What is decided: every possible node that lists at least one processor appears in
// the result with exactly its list - wherever it sits among nodes that list none.
#![allow(dead_code)]

use std::iter::FromIterator;

type MemoryRegionId = u32;
type ProcessorId = u32;

/// Stand-in for nonempty::NonEmpty<T>: from_vec is None iff the vector is empty.
#[derive(Clone, Debug, PartialEq)]
pub struct NonEmpty<T>(Vec<T>);
impl<T> NonEmpty<T> {
    pub fn from_vec(v: Vec<T>) -> Option<Self> {
        if v.is_empty() { None } else { Some(NonEmpty(v)) }
    }
}
/// Stand-in for the cpulist crate: the "text" of node k's member list is the single character b'A' + k for a
/// listed processor set, or "" for an empty list; parse() maps it back (never fails on what the stand-in fs returns).
mod cpulist {
    pub fn parse(s: &str) -> Result<Vec<u32>, ()> {
        match s.as_bytes().first() {
            None => Ok(Vec::new()),
            Some(b) => Ok(vec![(*b - b'A') as u32 * 10, (*b - b'A') as u32 * 10 + 1]),
        }
    }
}
/// Stand-in for HashMap<MemoryRegionId, NonEmpty<ProcessorId>>.
pub struct HashMap<K, V> {
    entries: Vec<(K, V)>,
}
impl<K, V> FromIterator<(K, V)> for HashMap<K, V> {
    fn from_iter<I: IntoIterator<Item = (K, V)>>(iter: I) -> Self {
        HashMap { entries: iter.into_iter().collect() }
    }
}
/// node k: Some("X") = lists processors, Some("") = empty list, None = no member file at all.
pub struct FsStub {
    nodes: [Option<&'static str>; 3],
}
impl FsStub {
    pub fn get_numa_node_cpulist_contents(&self, node: MemoryRegionId) -> Option<String> {
        self.nodes[node as usize].map(|s| s.to_string())
    }
}
pub struct PlatformStub {
    fs: FsStub,
    possible: Option<Vec<MemoryRegionId>>,
}
impl PlatformStub {
    fn get_possible_memory_region_ids(&self) -> Option<&Vec<MemoryRegionId>> {
        self.possible.as_ref()
    }
//@ extract fn packages/many_cpus_impl/src/pal/linux/platform.rs BuildTargetPlatform::get_numa_nodes
//@ end
}

#[cfg(kani)]
mod harness {
    use super::*;

    fn kind(k: u8, text: &'static str) -> Option<&'static str> {
        match k {
            0 => None,     // no member file
            1 => Some(""), // empty member list
            _ => Some(text),
        }
    }

    /// For every arrangement of three possible nodes, each of which has no member file / an empty list / a list:
    /// the result contains exactly the nodes that list processors, each with its own list.
    fn numa_nodes_join_contract(k: [u8; 3]) {
        let p = PlatformStub { fs: FsStub { nodes: [kind(k[0], "A"), kind(k[1], "B"), kind(k[2], "C")] }, possible: Some(vec![0, 1, 2]) };
        let r = p.get_numa_nodes().expect("C11.numa_nodes_present_when_possible_nodes_known");
        let mut node = 0usize;
        while node < 3 {
            let mut found = 0;
            let mut i = 0;
            while i < r.entries.len() {
                if r.entries[i].0 == node as u32 {
                    found += 1;
                    let expect = vec![node as u32 * 10, node as u32 * 10 + 1];
                    assert!(r.entries[i].1 .0 == expect, "C11.numa_node_maps_to_the_processors_it_lists");
                }
                i += 1;
            }
            assert!(found == if k[node] == 2 { 1 } else { 0 }, "C11.every_node_that_lists_processors_is_reported_exactly_once (empty nodes are skipped, not a stop)");
            node += 1;
        }
    }
    // concrete arrangements (a symbolic arrangement makes the string / Vec code intractable for CBMC)
    #[kani::proof]
    #[kani::unwind(24)]
    fn numa_nodes_join_listed_empty_listed() {
        numa_nodes_join_contract([2, 1, 2]);
    }
    #[kani::proof]
    #[kani::unwind(24)]
    fn numa_nodes_join_missing_listed_listed() {
        numa_nodes_join_contract([0, 2, 2]);
    }
    #[kani::proof]
    #[kani::unwind(24)]
    fn numa_nodes_join_all_listed() {
        numa_nodes_join_contract([2, 2, 2]);
    }
    #[kani::proof]
    #[kani::unwind(24)]
    fn numa_nodes_join_none_listed() {
        numa_nodes_join_contract([1, 0, 1]);
    }

    #[kani::proof]
    fn numa_nodes_absent_without_possible_list() {
        let p = PlatformStub { fs: FsStub { nodes: [None, None, None] }, possible: None };
        assert!(p.get_numa_nodes().is_none(), "C11.no_node_directory_means_no_numa_map (never a panic)");
    }
}
fn main() {}
