
// ===== folo-verif overlay (add-only; compiled only under `cargo kani`) =====
#[cfg(kani)]
mod verif_kani_pinstate {
    use super::*;

    fn any_state() -> ThreadState {
        ThreadState {
            pinned_processor_id: if kani::any() { Some(kani::any()) } else { None },
            pinned_memory_region_id: if kani::any() { Some(kani::any()) } else { None },
        }
    }
    fn same(a: Option<ThreadState>, b: Option<ThreadState>) -> bool {
        match (a, b) {
            (None, None) => true,
            (Some(x), Some(y)) => x.pinned_processor_id == y.pinned_processor_id && x.pinned_memory_region_id == y.pinned_memory_region_id,
            _ => false,
        }
    }
    /// Any map of exactly `n` (0..=2) entries with distinct keys (the invariant `set` maintains).
    fn any_map(n: usize) -> PinStateMap {
        let k0 = HardwareId(kani::any());
        let k1 = HardwareId(kani::any());
        kani::assume(k0 != k1);
        let entries = match n {
            0 => Vec::new(),
            1 => vec![(k0, any_state())],
            _ => vec![(k0, any_state()), (k1, any_state())],
        };
        PinStateMap { entries }
    }
    fn keys_distinct(m: &PinStateMap) -> bool {
        let n = m.entries.len();
        let mut i = 0;
        while i < n {
            let mut j = i + 1;
            while j < n {
                if m.entries[i].0 == m.entries[j].0 {
                    return false;
                }
                j += 1;
            }
            i += 1;
        }
        true
    }

    /// set(h, s): afterwards get(h) == s - whatever was recorded before, including a state with the same
    /// processor or region - every other instance's state is unchanged, keys stay distinct.
    fn set_contract(n: usize) {
        let mut m = any_map(n);
        let h = HardwareId(kani::any());
        let other = HardwareId(kani::any());
        kani::assume(other != h);
        let before_other = m.get(other);
        let before_len = m.entries.len();
        let had = m.get(h).is_some();
        let s = any_state();
        m.set(h, s);
        assert!(same(m.get(h), Some(s)), "C10.pin_state_set_then_get_is_last_pin");
        assert!(same(m.get(other), before_other), "C10.pin_state_set_frames_other_instances");
        assert!(keys_distinct(&m), "C10.pin_state_keys_distinct");
        assert!(m.entries.len() == before_len + usize::from(!had), "C10.pin_state_set_len");
        kani::cover!(had || before_len == 0);
    }

    /// remove(h): afterwards get(h) is None, every other instance's state is unchanged.
    fn remove_contract(n: usize) {
        let mut m = any_map(n);
        let h = HardwareId(kani::any());
        let other = HardwareId(kani::any());
        kani::assume(other != h);
        let before_other = m.get(other);
        m.remove(h);
        assert!(m.get(h).is_none(), "C10.pin_state_remove_then_get_is_none");
        assert!(same(m.get(other), before_other), "C10.pin_state_remove_frames_other_instances");
        assert!(keys_distinct(&m), "C10.pin_state_keys_distinct");
        kani::cover!(before_other.is_some() || n == 0);
    }
    macro_rules! inst {
        ($name:ident, $body:expr) => {
            #[kani::proof]
            #[kani::unwind(8)]
            fn $name() {
                $body
            }
        };
    }
    inst!(pin_state_map_set_contract_n0, set_contract(0));
    inst!(pin_state_map_set_contract_n1, set_contract(1));
    inst!(pin_state_map_set_contract_n2, set_contract(2));
    inst!(pin_state_map_remove_contract_n0, remove_contract(0));
    inst!(pin_state_map_remove_contract_n1, remove_contract(1));
    inst!(pin_state_map_remove_contract_n2, remove_contract(2));
}
