
// ===== folo-verif overlay (add-only; compiled only under `cargo kani`) =====
#[cfg(kani)]
mod verif_kani {
    use super::*;

    /// BitPosition::{of, bit, processor_id} for every u32 id: word*BITS + offset == id, offset < BITS, exactly one
    /// bit set, round trip. Also pins down the facts the Verus unit assumes about c_ulong on this target.
    #[kani::proof]
    fn bit_position_contract() {
        assert!(WORD_BITS == 64 && size_of::<c_ulong>() == 8, "dep.c_ulong_is_u64");
        let id: ProcessorId = kani::any();
        let p = BitPosition::of(id);
        assert!(p.offset < WORD_BITS, "C10.bitpos_offset_in_word");
        assert!(p.word as u64 * WORD_BITS as u64 + p.offset as u64 == id as u64, "C10.bitpos_decomposition");
        assert!(p.bit() == (1 as c_ulong) << p.offset, "C10.bitpos_bit");
        assert!(p.bit().count_ones() == 1, "C10.bitpos_single_bit");
        assert!(p.processor_id() == id, "C10.bitpos_roundtrip");
    }

    #[kani::proof]
    fn dep_checked_shl_contract() {
        let x: u64 = kani::any();
        let s: u32 = kani::any();
        let r = x.checked_shl(s);
        assert!(if s < 64 { r == Some(x << s) } else { r.is_none() }, "dep.u64_checked_shl");
    }

    fn any_mask(words: usize) -> CpuMask {
        let mut m = CpuMask::with_words(NonZero::new(words).unwrap());
        let mut i = 0;
        while i < 3 {
            if i < words {
                m.words[i] = kani::any();
            }
            i += 1;
        }
        m
    }

    fn has(m: &CpuMask, id: ProcessorId) -> bool {
        let p = BitPosition::of(id);
        m.word(p.word) & p.bit() != 0
    }

    /// Masks are equal iff they hold the same ids, whatever their widths (1..=3 words each).
    #[kani::proof]
    #[kani::unwind(5)]
    fn cpu_mask_eq_is_set_equality() {
        let wa: usize = kani::any();
        let wb: usize = kani::any();
        kani::assume(wa >= 1 && wa <= 3 && wb >= 1 && wb <= 3);
        let a = any_mask(wa);
        let b = any_mask(wb);
        let eq = a == b;
        let id: ProcessorId = kani::any();
        kani::assume(id < 4 * 64);
        if eq {
            assert!(has(&a, id) == has(&b, id), "C11.mask_eq_implies_same_ids");
        }
        // conversely: if they differ there is an id on which they differ (checked word-wise)
        let mut all_words_same = true;
        let mut i = 0;
        while i < 3 {
            if a.word(i) != b.word(i) {
                all_words_same = false;
            }
            i += 1;
        }
        assert!(eq == all_words_same, "C11.mask_eq_iff_same_words_modulo_width");
        kani::cover!(eq && wa != wb);
        kani::cover!(!eq && wa == wb);
    }
}
