
// ===== folo-verif overlay (add-only; compiled only under `cargo kani`) =====
#[cfg(kani)]
#[allow(static_mut_refs)]
pub(crate) mod verif_kani {
    use super::*;
    use std::task::{RawWaker, RawWakerVTable};

    // wakers are identified by their data pointer (a small tag); clones / drops are counted
    static mut W_CLONES: u32 = 0;
    static mut W_DROPS: u32 = 0;
    static mut W_WAKES: u32 = 0;
    unsafe fn w_clone(p: *const ()) -> RawWaker {
        unsafe { W_CLONES += 1 };
        RawWaker::new(p, &VT)
    }
    unsafe fn w_wake(_: *const ()) {
        unsafe {
            W_WAKES += 1;
            W_DROPS += 1;
        }
    }
    unsafe fn w_wake_by_ref(_: *const ()) {
        unsafe { W_WAKES += 1 };
    }
    unsafe fn w_drop(_: *const ()) {
        unsafe { W_DROPS += 1 };
    }
    static VT: RawWakerVTable = RawWakerVTable::new(w_clone, w_wake, w_wake_by_ref, w_drop);
    pub(crate) fn tagged_waker(tag: usize) -> Waker {
        unsafe { W_CLONES += 1 };
        unsafe { Waker::from_raw(RawWaker::new(tag as *const (), &VT)) }
    }
    pub(crate) fn tag_of(w: &Waker) -> usize {
        w.data() as usize
    }
    pub(crate) fn live_wakers() -> u32 {
        unsafe { W_CLONES - W_DROPS }
    }

    fn index_of<const N: usize>(nodes: &[Awaiter; N], p: *mut Awaiter) -> usize {
        let mut idx = N;
        let mut k = 0;
        while k < N {
            if ptr::eq(p, &nodes[k]) {
                idx = k;
            }
            k += 1;
        }
        idx
    }

    /// The list as a sequence of node indices (N = end marker). None if the pointers do not form a proper list.
    fn list_of<const N: usize>(set: &AwaiterSet, nodes: &[Awaiter; N]) -> Option<[usize; N]> {
        let mut seq = [N; N];
        let mut seen = [false; N];
        let mut cur = set.head;
        let mut prev: *mut Awaiter = ptr::null_mut();
        let mut n = 0;
        let mut steps = 0;
        while steps <= N {
            if cur.is_null() {
                break;
            }
            let idx = index_of::<N>(nodes, cur);
            if idx == N || seen[idx] {
                return None;
            }
            seen[idx] = true;
            if unsafe { nodes[idx].inner_ref() }.prev != prev {
                return None;
            }
            seq[n] = idx;
            n += 1;
            prev = cur;
            cur = unsafe { nodes[idx].inner_ref() }.next;
            steps += 1;
        }
        if !cur.is_null() || set.tail != prev {
            return None;
        }
        Some(seq)
    }

    /// Representation invariant: head/tail/prev/next form one doubly linked list containing exactly the WAITING
    /// awaiters, each once; each has a waker and belongs to this set; generations are non-decreasing along the list
    /// and not above the set's generation; IDLE / NOTIFIED awaiters hold no waker.
    pub(crate) fn set_wf<const N: usize>(set: &AwaiterSet, nodes: &[Awaiter; N]) -> bool {
        let Some(seq) = list_of::<N>(set, nodes) else {
            return false;
        };
        let mut in_list = [false; N];
        let mut last_gen = 0u64;
        let mut k = 0;
        while k < N {
            if seq[k] < N {
                let a = &nodes[seq[k]];
                in_list[seq[k]] = true;
                let inner = unsafe { a.inner_ref() };
                if a.lifecycle_phase() != WAITING || inner.waker.is_none() {
                    return false;
                }
                if inner.generation < last_gen || inner.generation > set.generation {
                    return false;
                }
                #[cfg(debug_assertions)]
                if inner.owning_set_id != set.set_id {
                    return false;
                }
                last_gen = inner.generation;
            }
            k += 1;
        }
        let mut k = 0;
        while k < N {
            let phase = nodes[k].lifecycle_phase();
            if phase > NOTIFIED || (phase == WAITING) != in_list[k] {
                return false;
            }
            if phase != WAITING && unsafe { nodes[k].inner_ref() }.waker.is_some() {
                return false;
            }
            k += 1;
        }
        true
    }

    /// Every state satisfying the invariant: phases, links, generations, head, tail are non-deterministic.
    /// WAITING awaiter k holds the waker tagged k+1.
    pub(crate) fn any_wf_set<const N: usize>(nodes: &[Awaiter; N]) -> AwaiterSet {
        let mut set = AwaiterSet::new();
        set.generation = kani::any();
        kani::assume(set.generation < u64::MAX); // generation counter wrap-around (2^64 resets) is out of scope
        let mut k = 0;
        while k < N {
            let a = &nodes[k];
            let phase: u8 = kani::any();
            kani::assume(phase <= NOTIFIED);
            a.set_lifecycle(phase, Ordering::Relaxed);
            let inner = unsafe { a.inner_mut() };
            let nx: usize = kani::any();
            let pv: usize = kani::any();
            kani::assume(nx <= N && pv <= N);
            inner.next = if nx == N { ptr::null_mut() } else { ptr::from_ref(&nodes[nx]).cast_mut() };
            inner.prev = if pv == N { ptr::null_mut() } else { ptr::from_ref(&nodes[pv]).cast_mut() };
            inner.generation = kani::any();
            #[cfg(debug_assertions)]
            {
                inner.owning_set_id = if phase == WAITING { set.set_id } else { 0 };
            }
            if phase == WAITING {
                inner.waker = Some(tagged_waker(k + 1));
            }
            k += 1;
        }
        let h: usize = kani::any();
        let t: usize = kani::any();
        kani::assume(h <= N && t <= N);
        set.head = if h == N { ptr::null_mut() } else { ptr::from_ref(&nodes[h]).cast_mut() };
        set.tail = if t == N { ptr::null_mut() } else { ptr::from_ref(&nodes[t]).cast_mut() };
        kani::assume(set_wf::<N>(&set, nodes));
        set
    }

    fn seq_eq<const N: usize>(a: &[usize; N], b: &[usize; N]) -> bool {
        let mut i = 0;
        let mut ok = true;
        while i < N {
            if a[i] != b[i] {
                ok = false;
            }
            i += 1;
        }
        ok
    }

    /// `after` is `before` with node `removed` deleted (order of all others preserved).
    fn is_seq_minus<const N: usize>(before: &[usize; N], after: &[usize; N], removed: usize) -> bool {
        let mut j = 0;
        let mut i = 0;
        while i < N {
            if before[i] < N && before[i] != removed {
                if after[j] != before[i] {
                    return false;
                }
                j += 1;
            }
            i += 1;
        }
        while j < N {
            if after[j] != N {
                return false;
            }
            j += 1;
        }
        true
    }

    fn others_unchanged<const N: usize>(nodes: &[Awaiter; N], phases: &[u8; N], gens: &[u64; N], except: usize) -> bool {
        let mut k = 0;
        while k < N {
            if k != except {
                if nodes[k].lifecycle_phase() != phases[k] || unsafe { nodes[k].inner_ref() }.generation != gens[k] {
                    return false;
                }
                if phases[k] == WAITING && tag_of(unsafe { nodes[k].inner_ref() }.waker.as_ref().unwrap()) != k + 1 {
                    return false;
                }
            }
            k += 1;
        }
        true
    }

    fn snapshot<const N: usize>(nodes: &[Awaiter; N]) -> ([u8; N], [u64; N]) {
        let mut p = [0u8; N];
        let mut g = [0u64; N];
        let mut k = 0;
        while k < N {
            p[k] = nodes[k].lifecycle_phase();
            g[k] = unsafe { nodes[k].inner_ref() }.generation;
            k += 1;
        }
        (p, g)
    }

    fn register_contract<const N: usize>(nodes: &mut [Awaiter; N]) {
        let mut set = any_wf_set::<N>(nodes);
        let before = list_of::<N>(&set, nodes).unwrap();
        let (phases, gens) = snapshot::<N>(nodes);
        let live0 = live_wakers();
        let k: usize = kani::any();
        kani::assume(k < N && phases[k] != NOTIFIED);
        let was_waiting = phases[k] == WAITING;
        let p = ptr::from_mut(&mut nodes[k]);
        unsafe { set.register(Pin::new_unchecked(&mut *p), tagged_waker(100)) };
        assert!(set_wf::<N>(&set, nodes), "C08.register_preserves_list_invariant");
        assert!(nodes[k].lifecycle_phase() == WAITING, "C08.register_makes_waiting");
        assert!(tag_of(unsafe { nodes[k].inner_ref() }.waker.as_ref().unwrap()) == 100, "C08.register_stores_latest_waker");
        assert!(others_unchanged::<N>(nodes, &phases, &gens, k), "C08.register_frame");
        let after = list_of::<N>(&set, nodes).unwrap();
        if was_waiting {
            assert!(seq_eq::<N>(&after, &before), "C08.reregister_keeps_queue_position");
            assert!(unsafe { nodes[k].inner_ref() }.generation == gens[k], "C08.reregister_keeps_generation");
            assert!(live_wakers() == live0, "C08.reregister_drops_replaced_waker_once");
        } else {
            assert!(is_seq_minus::<N>(&after, &before, k), "C08.register_appends");
            let mut last = N;
            let mut i = 0;
            while i < N {
                if after[i] < N {
                    last = after[i];
                }
                i += 1;
            }
            assert!(last == k, "C08.register_appends_at_tail");
            assert!(unsafe { nodes[k].inner_ref() }.generation == set.generation, "C08.register_stamps_current_generation");
            assert!(live_wakers() == live0 + 1, "C08.register_keeps_the_waker");
        }
        assert!(!set.is_empty(), "C08.is_empty_iff_no_waiter");
        kani::cover!(was_waiting);
        kani::cover!(!was_waiting && before[0] < N);
        kani::cover!(!was_waiting && before[0] == N);
    }

    fn unregister_contract<const N: usize>(nodes: &mut [Awaiter; N]) {
        let mut set = any_wf_set::<N>(nodes);
        let before = list_of::<N>(&set, nodes).unwrap();
        let (phases, gens) = snapshot::<N>(nodes);
        let live0 = live_wakers();
        let k: usize = kani::any();
        kani::assume(k < N && phases[k] != IDLE);
        let was_waiting = phases[k] == WAITING;
        let p = ptr::from_mut(&mut nodes[k]);
        unsafe { set.unregister(Pin::new_unchecked(&mut *p)) };
        assert!(set_wf::<N>(&set, nodes), "C08.unregister_preserves_list_invariant");
        assert!(others_unchanged::<N>(nodes, &phases, &gens, k), "C08.unregister_frame");
        let after = list_of::<N>(&set, nodes).unwrap();
        if was_waiting {
            assert!(nodes[k].lifecycle_phase() == IDLE, "C08.unregister_waiting_becomes_idle");
            assert!(is_seq_minus::<N>(&before, &after, k), "C08.unregister_removes_exactly_that_awaiter");
            assert!(live_wakers() + 1 == live0, "C08.unregister_drops_its_waker_once");
        } else {
            // a notified awaiter keeps its notification: cancelling must pass the signal on at a higher level
            assert!(nodes[k].lifecycle_phase() == NOTIFIED && seq_eq::<N>(&after, &before) && live_wakers() == live0, "C08.unregister_notified_is_noop");
        }
        assert!(set.is_empty() == (after[0] == N), "C08.is_empty_iff_no_waiter");
        kani::cover!(was_waiting && !set.is_empty());
        kani::cover!(was_waiting && before[0] == k && N > 1 && before[1] < N);
        kani::cover!(!was_waiting);
    }

    fn notify_one_contract<const N: usize>(nodes: &mut [Awaiter; N]) {
        let mut set = any_wf_set::<N>(nodes);
        let before = list_of::<N>(&set, nodes).unwrap();
        let (phases, gens) = snapshot::<N>(nodes);
        let live0 = live_wakers();
        let was_empty = set.is_empty();
        assert!(was_empty == (before[0] == N), "C08.is_empty_iff_no_waiter");
        let r = set.notify_one();
        assert!(set_wf::<N>(&set, nodes), "C08.notify_one_preserves_list_invariant");
        let after = list_of::<N>(&set, nodes).unwrap();
        match r {
            None => {
                // a signal finds no waiter only if there is none (the caller then stores it)
                assert!(was_empty && seq_eq::<N>(&after, &before), "C08.notify_one_none_iff_no_waiter");
            }
            Some(w) => {
                let t = tag_of(&w);
                assert!(t >= 1 && t <= N, "C08.notify_one_returns_a_registered_waker");
                let k = t - 1;
                assert!(phases[k] == WAITING && nodes[k].lifecycle_phase() == NOTIFIED, "C08.notify_one_marks_exactly_that_awaiter_notified (latest waker returned)");
                assert!(is_seq_minus::<N>(&before, &after, k), "C08.notify_one_removes_exactly_one");
                assert!(others_unchanged::<N>(nodes, &phases, &gens, k), "C08.notify_one_frame (no second awaiter released)");
                assert!(live_wakers() == live0, "C08.notify_one_hands_the_waker_to_the_caller");
                core::mem::forget(w);
            }
        }
        kani::cover!(!was_empty && after[0] < N);
        kani::cover!(was_empty);
    }

    fn notify_prior_contract<const N: usize>(nodes: &mut [Awaiter; N]) {
        let mut set = any_wf_set::<N>(nodes);
        let before = list_of::<N>(&set, nodes).unwrap();
        let (phases, gens) = snapshot::<N>(nodes);
        let advance: bool = kani::any();
        if advance {
            let g0 = set.generation;
            set.advance_generation();
            assert!(set.generation == g0.wrapping_add(1) && set_wf::<N>(&set, nodes) && seq_eq::<N>(&list_of::<N>(&set, nodes).unwrap(), &before), "C08.advance_generation_only_bumps_the_counter");
        }
        let r = set.notify_one_prior_generation();
        assert!(set_wf::<N>(&set, nodes), "C08.notify_prior_preserves_list_invariant");
        let after = list_of::<N>(&set, nodes).unwrap();
        // exists a waiter registered before the current generation?  (generations are sorted: look at the head)
        let head_is_prior = before[0] < N && gens[before[0]] < set.generation;
        match r {
            None => assert!(!head_is_prior && seq_eq::<N>(&after, &before), "C08.notify_prior_none_iff_no_prior_generation_waiter"),
            Some(w) => {
                let k = tag_of(&w) - 1;
                assert!(head_is_prior && k == before[0], "C08.notify_prior_releases_the_oldest_prior_waiter");
                assert!(gens[k] < set.generation, "C08.notify_prior_never_releases_current_generation");
                assert!(nodes[k].lifecycle_phase() == NOTIFIED && is_seq_minus::<N>(&before, &after, k) && others_unchanged::<N>(nodes, &phases, &gens, k), "C08.notify_prior_removes_exactly_one");
                core::mem::forget(w);
            }
        }
        kani::cover!(r_is_some_marker(&after, &before));
    }
    fn r_is_some_marker<const N: usize>(after: &[usize; N], before: &[usize; N]) -> bool {
        !seq_eq::<N>(after, before)
    }

    macro_rules! inst {
        ($name:ident, $unwind:expr, $f:ident, $n:expr) => {
            #[kani::proof]
            #[kani::unwind($unwind)]
            fn $name() {
                let mut nodes: [Awaiter; $n] = core::array::from_fn(|_| Awaiter::new());
                $f::<$n>(&mut nodes);
                core::mem::forget(nodes);
            }
        };
    }
    inst!(register_contract_n2, 5, register_contract, 2);
    inst!(register_contract_n3, 6, register_contract, 3);
    inst!(unregister_contract_n3, 6, unregister_contract, 3);
    inst!(notify_one_contract_n3, 6, notify_one_contract, 3);
    inst!(notify_prior_contract_n3, 6, notify_prior_contract, 3);
    inst!(register_contract_n4, 7, register_contract, 4);
    inst!(unregister_contract_n4, 7, unregister_contract, 4);
    inst!(notify_one_contract_n4, 7, notify_one_contract, 4);
    inst!(notify_prior_contract_n4, 7, notify_prior_contract, 4);

    /// Awaiter lifecycle accessors.
    #[kani::proof]
    fn awaiter_lifecycle_contract() {
        let a = Awaiter::new();
        assert!(!a.is_registered() && !a.is_notified() && a.lifecycle_phase() == IDLE, "C08.new_awaiter_idle");
        let phase: u8 = kani::any();
        kani::assume(phase <= NOTIFIED);
        a.set_lifecycle(phase, Ordering::Relaxed);
        assert!(a.is_registered() == (phase != IDLE) && a.is_notified() == (phase == NOTIFIED), "C08.lifecycle_queries");
        let took = a.take_notification();
        assert!(took == (phase == NOTIFIED), "C08.take_notification_consumes_exactly_a_notification");
        assert!(a.lifecycle_phase() == if phase == NOTIFIED { IDLE } else { phase }, "C08.take_notification_resets_to_idle_only_when_notified");
        core::mem::forget(a);
    }
}
