//! Native search for a failing input of the REAL single-threaded one-shot event (public API, path dependency on
//! the staged repository): every program of the shape
//!     [poll the receiver 0..2 times]  ;  main operation  ;  drop whatever is left
//! in which ONE of the waker's callbacks (clone / wake / drop, at its 1st..3rd invocation) re-entrantly performs an
//! operation of the other endpoint on the very same event. Checks: no panic, the payload is delivered or dropped
//! exactly once, every waker clone is dropped (the waker data's reference count returns to 1).
use std::cell::{Cell, RefCell};
use std::future::Future;
use std::panic::{catch_unwind, AssertUnwindSafe};
use std::pin::Pin;
use std::rc::Rc;
use std::task::{Context, Poll, RawWaker, RawWakerVTable, Waker};

use events_once::{BoxedLocalReceiver, BoxedLocalSender, IntoValueError, LocalEvent};

thread_local! {
    static PAYLOAD_DROPS: Cell<u32> = const { Cell::new(0) };
}
struct Payload(u32);
impl Drop for Payload {
    fn drop(&mut self) {
        PAYLOAD_DROPS.with(|d| d.set(d.get() + 1));
    }
}

#[derive(Clone, Copy, Debug, PartialEq)]
enum Cb {
    Clone,
    Wake,
    Drop,
}
#[derive(Clone, Copy, Debug, PartialEq)]
enum Act {
    None,
    Send,
    DropSender,
    PollReceiver,
    IntoValue,
    DropReceiver,
}

struct Shared {
    sender: RefCell<Option<BoxedLocalSender<Payload>>>,
    receiver: RefCell<Option<BoxedLocalReceiver<Payload>>>,
    trigger: Cell<Option<(Cb, u32, Act)>>,
    counts: [Cell<u32>; 3],
    sent: Cell<bool>,
    delivered: Cell<u32>,
    in_action: Cell<bool>,
}

fn fire(sh: &Rc<Shared>, cb: Cb) {
    let idx = cb as usize;
    sh.counts[idx].set(sh.counts[idx].get() + 1);
    if sh.in_action.get() {
        return;
    }
    if let Some((c, k, act)) = sh.trigger.get() {
        if c == cb && sh.counts[idx].get() == k {
            sh.trigger.set(None);
            sh.in_action.set(true);
            perform(sh, act);
            sh.in_action.set(false);
        }
    }
}

fn perform(sh: &Rc<Shared>, act: Act) {
    match act {
        Act::None => {}
        Act::Send => {
            let s = sh.sender.borrow_mut().take();
            if let Some(s) = s {
                sh.sent.set(true);
                s.send(Payload(7));
            }
        }
        Act::DropSender => {
            let s = sh.sender.borrow_mut().take();
            drop(s);
        }
        Act::PollReceiver => {
            let r = sh.receiver.borrow_mut().take();
            if let Some(mut r) = r {
                let w = Waker::noop();
                let mut cx = Context::from_waker(w);
                match Pin::new(&mut r).poll(&mut cx) {
                    Poll::Ready(Ok(p)) => {
                        sh.delivered.set(sh.delivered.get() + 1);
                        std::mem::forget(p);
                    }
                    Poll::Ready(Err(_)) => {}
                    Poll::Pending => {
                        *sh.receiver.borrow_mut() = Some(r);
                    }
                }
            }
        }
        Act::IntoValue => {
            let r = sh.receiver.borrow_mut().take();
            if let Some(r) = r {
                match r.into_value() {
                    Ok(p) => {
                        sh.delivered.set(sh.delivered.get() + 1);
                        std::mem::forget(p);
                    }
                    Err(IntoValueError::Pending(r)) => {
                        *sh.receiver.borrow_mut() = Some(r);
                    }
                    Err(_) => {}
                }
            }
        }
        Act::DropReceiver => {
            let r = sh.receiver.borrow_mut().take();
            drop(r);
        }
    }
}

unsafe fn rc_of(p: *const ()) -> Rc<Shared> {
    let rc = unsafe { Rc::from_raw(p.cast::<Shared>()) };
    let c = Rc::clone(&rc);
    std::mem::forget(rc);
    c
}
unsafe fn w_clone(p: *const ()) -> RawWaker {
    let sh = unsafe { rc_of(p) };
    fire(&sh, Cb::Clone);
    RawWaker::new(Rc::into_raw(sh).cast(), &VTABLE)
}
unsafe fn w_wake(p: *const ()) {
    let sh = unsafe { rc_of(p) };
    fire(&sh, Cb::Wake);
    drop(sh);
    unsafe { drop(Rc::from_raw(p.cast::<Shared>())) };
}
unsafe fn w_wake_by_ref(p: *const ()) {
    let sh = unsafe { rc_of(p) };
    fire(&sh, Cb::Wake);
}
unsafe fn w_drop(p: *const ()) {
    let sh = unsafe { rc_of(p) };
    fire(&sh, Cb::Drop);
    drop(sh);
    unsafe { drop(Rc::from_raw(p.cast::<Shared>())) };
}
static VTABLE: RawWakerVTable = RawWakerVTable::new(w_clone, w_wake, w_wake_by_ref, w_drop);

fn run(prepolls: u32, main_op: Act, trigger: Option<(Cb, u32, Act)>) -> Result<(), String> {
    PAYLOAD_DROPS.with(|d| d.set(0));
    let (sender, receiver) = LocalEvent::<Payload>::boxed();
    let sh = Rc::new(Shared {
        sender: RefCell::new(Some(sender)),
        receiver: RefCell::new(Some(receiver)),
        trigger: Cell::new(trigger),
        counts: [Cell::new(0), Cell::new(0), Cell::new(0)],
        sent: Cell::new(false),
        delivered: Cell::new(0),
        in_action: Cell::new(false),
    });
    let waker = unsafe { Waker::from_raw(RawWaker::new(Rc::into_raw(Rc::clone(&sh)).cast(), &VTABLE)) };
    for _ in 0..prepolls {
        let r = sh.receiver.borrow_mut().take();
        if let Some(mut r) = r {
            let mut cx = Context::from_waker(&waker);
            match Pin::new(&mut r).poll(&mut cx) {
                Poll::Ready(Ok(p)) => {
                    sh.delivered.set(sh.delivered.get() + 1);
                    std::mem::forget(p);
                }
                Poll::Ready(Err(_)) => {}
                Poll::Pending => *sh.receiver.borrow_mut() = Some(r),
            }
        }
    }
    // main operation (with the harness's own waker for polls)
    match main_op {
        Act::PollReceiver => {
            let r = sh.receiver.borrow_mut().take();
            if let Some(mut r) = r {
                let mut cx = Context::from_waker(&waker);
                match Pin::new(&mut r).poll(&mut cx) {
                    Poll::Ready(Ok(p)) => {
                        sh.delivered.set(sh.delivered.get() + 1);
                        std::mem::forget(p);
                    }
                    Poll::Ready(Err(_)) => {}
                    Poll::Pending => *sh.receiver.borrow_mut() = Some(r),
                }
            }
        }
        other => perform(&sh, other),
    }
    // wind down: drop whatever is left, in both orders depending on the main op
    drop(waker);
    let s = sh.sender.borrow_mut().take();
    drop(s);
    let r = sh.receiver.borrow_mut().take();
    drop(r);
    let sent = if sh.sent.get() { 1 } else { 0 };
    let drops = PAYLOAD_DROPS.with(Cell::get);
    if drops + sh.delivered.get() != sent {
        return Err(format!("payload sent {sent} time(s) but delivered {} + dropped {drops}", sh.delivered.get()));
    }
    if Rc::strong_count(&sh) != 1 {
        return Err(format!("{} waker clone(s) were never dropped", Rc::strong_count(&sh) - 1));
    }
    Ok(())
}

fn main() {
    std::panic::set_hook(Box::new(|_| {}));
    let mut failures = 0;
    let mut runs = 0u32;
    let sender_side = [Act::Send, Act::DropSender];
    let receiver_side = [Act::PollReceiver, Act::IntoValue, Act::DropReceiver];
    let mut programs: Vec<(u32, Act, Option<(Cb, u32, Act)>)> = Vec::new();
    for prepolls in 0..=2u32 {
        for &main_op in sender_side.iter().chain(receiver_side.iter()) {
            programs.push((prepolls, main_op, None));
            let others: &[Act] = if sender_side.contains(&main_op) { &receiver_side } else { &sender_side };
            for &cb in &[Cb::Clone, Cb::Wake, Cb::Drop] {
                for k in 1..=3u32 {
                    for &act in others {
                        programs.push((prepolls, main_op, Some((cb, k, act))));
                    }
                }
            }
        }
    }
    for (prepolls, main_op, trigger) in programs {
        runs += 1;
        let r = catch_unwind(AssertUnwindSafe(|| run(prepolls, main_op, trigger)));
        let desc = format!("poll x{prepolls}; {main_op:?}; re-entrant action {trigger:?}");
        match r {
            Ok(Ok(())) => {}
            Ok(Err(m)) => {
                failures += 1;
                println!("FAILING-INPUT {desc}: {m}");
            }
            Err(_) => {
                failures += 1;
                println!("FAILING-INPUT {desc}: panicked");
            }
        }
        if failures >= 5 {
            break;
        }
    }
    println!("runs={runs} failures={failures}");
}
