// Lemma U7.4: from the per-call contracts of the single-threaded one-shot event (proved on the real code by the Kani
// harnesses of units/events_once/kani/local.append.rs) it follows, for EVERY sequence of endpoint operations of any
// length - including operations performed re-entrantly from inside waker callbacks, which the Kani harnesses show to
// have exactly the effect of the same operation performed at that point - that the payload is delivered or dropped
// exactly once, the storage is released exactly once (by the last endpoint), no operation touches it afterwards, and
// every cloned waker is dropped. No code is extracted here: the transition relation below IS the table of
// postconditions asserted by event_set_contract, event_sender_dropped_contract, event_poll_contract,
// event_final_poll_contract and the three *_core_* harnesses; the correspondence is by inspection (listed assumption).
use vstd::prelude::*;
verus! {

#[derive(PartialEq, Eq, Clone, Copy)]
pub enum St { Bound, Set, Awaiting, Disconnected }

pub struct Sys {
    pub st: St,
    pub sender_alive: bool,
    pub receiver_alive: bool,
    pub sent: int,        // payloads handed to send()
    pub delivered: int,   // payloads handed to the receiver
    pub dropped: int,     // payloads destroyed
    pub released: int,    // storage releases
    pub wakers: int,      // waker clones alive inside the event
}

pub enum Op { Send, DropSender, Poll, IntoValue, DropReceiver }

pub open spec fn init() -> Sys {
    Sys { st: St::Bound, sender_alive: true, receiver_alive: true, sent: 0, delivered: 0, dropped: 0, released: 0, wakers: 0 }
}

/// An operation is possible only through an endpoint that still exists (ownership: send / into_value / drops consume it).
pub open spec fn enabled(s: Sys, op: Op) -> bool {
    match op {
        Op::Send | Op::DropSender => s.sender_alive,
        Op::Poll | Op::IntoValue | Op::DropReceiver => s.receiver_alive,
    }
}

/// The per-call contracts (postconditions of the Kani harnesses), as a transition function.
pub open spec fn step(s: Sys, op: Op) -> Sys {
    match op {
        // sender_core_contract: BOUND -> SET; AWAITING -> SET + wake (the registered waker is consumed);
        // DISCONNECTED (receiver gone) -> payload dropped, sender releases.
        Op::Send => match s.st {
            St::Bound => Sys { st: St::Set, sender_alive: false, sent: s.sent + 1, ..s },
            St::Awaiting => Sys { st: St::Set, sender_alive: false, sent: s.sent + 1, wakers: s.wakers - 1, ..s },
            _ => Sys { sender_alive: false, sent: s.sent + 1, dropped: s.dropped + 1, released: s.released + 1, ..s },
        },
        Op::DropSender => match s.st {
            St::Bound => Sys { st: St::Disconnected, sender_alive: false, ..s },
            St::Awaiting => Sys { st: St::Disconnected, sender_alive: false, wakers: s.wakers - 1, ..s },
            _ => Sys { sender_alive: false, released: s.released + 1, ..s },
        },
        // receiver_core_poll_contract: BOUND -> AWAITING (+1 waker), AWAITING -> AWAITING (waker replaced),
        // SET -> Ready(value) + release, DISCONNECTED -> Ready(Err) + release.
        Op::Poll => match s.st {
            St::Bound => Sys { st: St::Awaiting, wakers: s.wakers + 1, ..s },
            St::Awaiting => s,
            St::Set => Sys { receiver_alive: false, delivered: s.delivered + 1, released: s.released + 1, ..s },
            St::Disconnected => Sys { receiver_alive: false, released: s.released + 1, ..s },
        },
        // into_value: pending -> nothing changes (the receiver is handed back); terminal -> as poll.
        Op::IntoValue => match s.st {
            St::Bound | St::Awaiting => s,
            St::Set => Sys { receiver_alive: false, delivered: s.delivered + 1, released: s.released + 1, ..s },
            St::Disconnected => Sys { receiver_alive: false, released: s.released + 1, ..s },
        },
        // drop receiver: BOUND/AWAITING -> DISCONNECTED (registered waker dropped), sender will release;
        // SET -> payload dropped + release; DISCONNECTED -> release.
        Op::DropReceiver => match s.st {
            St::Bound => Sys { st: St::Disconnected, receiver_alive: false, ..s },
            St::Awaiting => Sys { st: St::Disconnected, receiver_alive: false, wakers: s.wakers - 1, ..s },
            St::Set => Sys { receiver_alive: false, dropped: s.dropped + 1, released: s.released + 1, ..s },
            St::Disconnected => Sys { receiver_alive: false, released: s.released + 1, ..s },
        },
    }
}

/// The inductive invariant.
pub open spec fn inv(s: Sys) -> bool {
    // payload conservation: every sent payload is in the cell, delivered or dropped - exactly once
    &&& s.delivered + s.dropped + (if s.st == St::Set && s.released == 0 { 1int } else { 0 }) == s.sent
    &&& 0 <= s.sent <= 1 && (s.sent == 1 ==> !s.sender_alive) && s.delivered >= 0 && s.dropped >= 0
    // at most one release, and exactly when both endpoints are gone
    &&& 0 <= s.released <= 1
    &&& (s.released == 1) == (!s.sender_alive && !s.receiver_alive)
    // the event holds a waker iff AWAITING (and then both endpoints are alive)
    &&& s.wakers == (if s.st == St::Awaiting { 1int } else { 0 })
    // state / liveness coupling (state.rs "cleanup ownership")
    &&& (s.st == St::Bound || s.st == St::Awaiting ==> s.sender_alive && s.receiver_alive)
    &&& (s.st == St::Set && s.released == 0 ==> !s.sender_alive && s.receiver_alive)
    &&& (s.st == St::Disconnected && s.released == 0 ==> s.sender_alive != s.receiver_alive)
}

pub proof fn lemma_init() ensures inv(init()) {}

pub proof fn lemma_step(s: Sys, op: Op)
    requires inv(s), enabled(s, op),
    ensures inv(step(s, op)),
{}

pub open spec fn run(s: Sys, ops: Seq<Op>) -> Sys
    decreases ops.len(),
{
    if ops.len() == 0 { s } else { run(step(s, ops[0]), ops.subrange(1, ops.len() as int)) }
}
pub open spec fn all_enabled(s: Sys, ops: Seq<Op>) -> bool
    decreases ops.len(),
{
    ops.len() == 0 || (enabled(s, ops[0]) && all_enabled(step(s, ops[0]), ops.subrange(1, ops.len() as int)))
}

/// For every legal program (any length): the invariant holds at the end; and once both endpoints are gone the
/// payload was delivered-or-dropped exactly once (if sent at all), the storage was released exactly once and no waker
/// clone is left.
pub proof fn theorem_exactly_once(ops: Seq<Op>)
    requires all_enabled(init(), ops),
    ensures ({
        let f = run(init(), ops);
        &&& inv(f)
        &&& (!f.sender_alive && !f.receiver_alive ==> f.released == 1 && f.delivered + f.dropped == f.sent && f.wakers == 0)
        &&& f.delivered <= 1 && f.dropped <= 1
    }),
{
    lemma_init();
    lemma_run(init(), ops);
}

proof fn lemma_run(s: Sys, ops: Seq<Op>)
    requires inv(s), all_enabled(s, ops),
    ensures inv(run(s, ops)),
    decreases ops.len(),
{
    if ops.len() > 0 {
        lemma_step(s, ops[0]);
        lemma_run(step(s, ops[0]), ops.subrange(1, ops.len() as int));
    }
}

/// No operation is possible after the release ("no access afterwards"): both endpoints are gone.
pub proof fn lemma_no_operation_after_release(s: Sys, op: Op)
    requires inv(s), s.released == 1,
    ensures !enabled(s, op),
{}

} // verus!
fn main() {}
