
// ===== folo-verif overlay (add-only; compiled only under `cargo kani`) =====
#[cfg(kani)]
#[allow(static_mut_refs)]
mod verif_kani {
    use super::*;
    use crate::{IntoValueError, LocalRef};
    use std::alloc::{alloc, dealloc, Layout};
    use std::future::Future;
    use std::ops::Deref;
    use std::ptr;
    use std::task::{Context, Poll, RawWaker, RawWakerVTable};

    // ------------------------------------------------------------------ ghost accounting
    static mut CLONES: u32 = 0; // wakers created (the harness's original counts as one)
    static mut DROPS: u32 = 0; // wakers destroyed (drop callback, or consumed by wake-by-value)
    static mut WAKES: u32 = 0;
    static mut PAYLOAD_DROPS: u32 = 0;
    static mut RELEASES: u32 = 0;
    static mut DELIVERED: u32 = 0; // payloads handed to the receiver (by the function under test or by havoc)

    /// The event under test and what the callbacks may do to it.
    static mut EVP: *const UnsafeCell<LocalEvent<Payload>> = ptr::null();
    /// 0 = the other endpoint is already gone / may not act, 1 = a live sender may act, 2 = a live receiver may act.
    static mut OTHER: u8 = 0;
    static mut IN_CALLBACK: bool = false;
    static mut CB_INVARIANT_OK: bool = true; // representation invariant held at every callback
    static mut CB_TERMINAL_AT_WAKE: bool = true; // terminal state already published whenever `wake` ran
    static mut CALLBACKS: u32 = 0;
    static mut HAVOC_SENT: Option<u32> = None;
    static mut EXPECT_VALUE: Option<u32> = None; // payload expected in the cell while state == SET
    const TAG: usize = 0x40;

    struct Payload(u32);
    impl Drop for Payload {
        fn drop(&mut self) {
            unsafe { PAYLOAD_DROPS += 1 };
        }
    }

    fn ev() -> &'static LocalEvent<Payload> {
        unsafe { &*(*EVP).get() }
    }

    /// Representation invariant of state.rs ("Field initialization"): `value` holds the expected payload iff SET,
    /// `awaiter` holds one of our wakers iff AWAITING; the state is one of the four single-threaded states.
    fn rep_inv() -> bool {
        if unsafe { RELEASES } > 0 {
            return true; // storage gone: nothing may be inspected (CBMC flags any access)
        }
        let e = ev();
        match e.state.get() {
            EVENT_BOUND | EVENT_DISCONNECTED => true,
            EVENT_SET => unsafe { EXPECT_VALUE.is_some() && (*e.value.get()).assume_init_ref().0 == EXPECT_VALUE.unwrap() },
            EVENT_AWAITING => unsafe { (*e.awaiter.get()).assume_init_ref().data() as usize == TAG },
            _ => false,
        }
    }

    /// What a live *sender* may do while the receiver runs user code: nothing, send, or be dropped.
    /// Effects are the proved postconditions of `set` / `sender_dropped_without_set` (harnesses below).
    unsafe fn havoc_sender() {
        let choice: u8 = kani::any();
        let e = ev();
        let st = e.state.get();
        if choice == 0 || !(st == EVENT_BOUND || st == EVENT_AWAITING) {
            return;
        }
        unsafe {
            OTHER = 0; // the sender is consumed either way
            if st == EVENT_AWAITING {
                // the registered awaiter is taken out and woken (consumed by wake-by-value)
                let w = (*e.awaiter.get()).assume_init_read();
                core::mem::forget(w);
                WAKES += 1;
                DROPS += 1;
            }
            if choice == 1 {
                let v: u32 = kani::any();
                (*e.value.get()).write(Payload(v));
                e.state.set(EVENT_SET);
                HAVOC_SENT = Some(v);
                EXPECT_VALUE = Some(v);
            } else {
                e.state.set(EVENT_DISCONNECTED);
            }
        }
    }

    /// What a live *receiver* may do from inside the sender's wake callback (terminal state is published):
    /// nothing, or complete (poll / into_value / drop) - which consumes the payload and RELEASES the storage.
    unsafe fn havoc_receiver() {
        let choice: u8 = kani::any();
        let e = ev();
        let st = e.state.get();
        if choice == 0 || !(st == EVENT_SET || st == EVENT_DISCONNECTED) {
            return;
        }
        unsafe {
            OTHER = 0;
            if st == EVENT_SET {
                let v = (*e.value.get()).assume_init_read();
                if choice == 1 {
                    DELIVERED += 1;
                    core::mem::forget(v);
                } else {
                    drop(v); // receiver dropped without looking
                }
            }
            RELEASES += 1;
            dealloc(EVP.cast_mut().cast(), Layout::new::<LocalEvent<Payload>>());
        }
    }

    unsafe fn on_callback(is_wake: bool) {
        unsafe {
            CALLBACKS += 1;
            if IN_CALLBACK {
                return;
            }
            IN_CALLBACK = true;
            if !rep_inv() {
                CB_INVARIANT_OK = false;
            }
            if is_wake && RELEASES == 0 {
                let st = ev().state.get();
                if !(st == EVENT_SET || st == EVENT_DISCONNECTED) {
                    CB_TERMINAL_AT_WAKE = false;
                }
            }
            match OTHER {
                1 => havoc_sender(),
                2 if is_wake => havoc_receiver(),
                _ => {}
            }
            IN_CALLBACK = false;
        }
    }

    unsafe fn w_clone(p: *const ()) -> RawWaker {
        unsafe {
            CLONES += 1;
            on_callback(false);
        }
        RawWaker::new(p, &VT)
    }
    unsafe fn w_wake(_: *const ()) {
        unsafe {
            WAKES += 1;
            DROPS += 1;
            on_callback(true);
        }
    }
    unsafe fn w_wake_by_ref(_: *const ()) {
        unsafe {
            WAKES += 1;
            on_callback(true);
        }
    }
    unsafe fn w_drop(_: *const ()) {
        unsafe {
            DROPS += 1;
            on_callback(false);
        }
    }
    static VT: RawWakerVTable = RawWakerVTable::new(w_clone, w_wake, w_wake_by_ref, w_drop);

    fn new_waker() -> Waker {
        unsafe { CLONES += 1 };
        unsafe { Waker::from_raw(RawWaker::new(TAG as *const (), &VT)) }
    }

    fn stub_bt() -> crate::BacktraceType {
        std::sync::Arc::new(std::backtrace::Backtrace::disabled())
    }

    /// Event reference that counts releases and really frees the storage, so that CBMC's dangling-pointer checks
    /// catch every access after release.
    #[derive(Debug)]
    struct CountingRef {
        event: NonNull<UnsafeCell<LocalEvent<Payload>>>,
    }
    unsafe impl LocalRef<Payload> for CountingRef {
        unsafe fn release_event(&self) {
            unsafe {
                RELEASES += 1;
                dealloc(self.event.as_ptr().cast(), Layout::new::<LocalEvent<Payload>>());
            }
        }
    }
    impl Deref for CountingRef {
        type Target = UnsafeCell<LocalEvent<Payload>>;
        fn deref(&self) -> &Self::Target {
            unsafe { self.event.as_ref() }
        }
    }

    /// An event in an arbitrary state satisfying the representation invariant.
    /// `awaiters_wakers` = number of wakers alive besides the one inside the event.
    fn any_event(allowed: &[u8]) -> (CountingRef, u8) {
        let p = NonNull::new(unsafe { alloc(Layout::new::<LocalEvent<Payload>>()) }).unwrap().cast::<UnsafeCell<LocalEvent<Payload>>>();
        LocalEvent::new_in_inner(unsafe { p.cast::<UnsafeCell<MaybeUninit<LocalEvent<Payload>>>>().as_mut() });
        let st: u8 = kani::any();
        let mut ok = false;
        let mut i = 0;
        while i < allowed.len() {
            if allowed[i] == st {
                ok = true;
            }
            i += 1;
        }
        kani::assume(ok);
        let e = unsafe { &*p.as_ref().get() };
        e.state.set(st);
        if st == EVENT_AWAITING {
            unsafe { (*e.awaiter.get()).write(new_waker()) };
        }
        if st == EVENT_SET {
            let v: u32 = kani::any();
            unsafe {
                (*e.value.get()).write(Payload(v));
                EXPECT_VALUE = Some(v);
            }
        }
        unsafe { EVP = p.as_ptr() };
        (CountingRef { event: p }, st)
    }

    fn awaiter_wakers(st: u8) -> u32 {
        if st == EVENT_AWAITING { 1 } else { 0 }
    }

    /// Waker conservation for one call: wakers alive afterwards = the harness's own + the one in the event (if any).
    fn waker_balance_ok(own: u32) -> bool {
        let in_event = if unsafe { RELEASES } == 0 && ev().state.get() == EVENT_AWAITING { 1 } else { 0 };
        unsafe { CLONES - DROPS == own + in_event }
    }

    const ALL_SENDER_PRE: [u8; 3] = [EVENT_BOUND, EVENT_AWAITING, EVENT_DISCONNECTED];
    const ALL_RECEIVER_PRE: [u8; 4] = [EVENT_BOUND, EVENT_SET, EVENT_AWAITING, EVENT_DISCONNECTED];

    // ================================================================== U7.1: event transitions (no interference)
    #[kani::proof]
    #[kani::stub(crate::backtrace::capture_backtrace, stub_bt)]
    fn event_set_contract() {
        let (r, pre) = any_event(&ALL_SENDER_PRE);
        let v: u32 = kani::any();
        unsafe { EXPECT_VALUE = Some(v) };
        let res = LocalEvent::set(&r, Payload(v));
        match pre {
            EVENT_BOUND => {
                assert!(res.is_ok() && ev().state.get() == EVENT_SET, "C07.set_from_bound_publishes_set");
                assert!(unsafe { WAKES == 0 && PAYLOAD_DROPS == 0 }, "C07.set_from_bound_no_callbacks");
            }
            EVENT_AWAITING => {
                assert!(res.is_ok() && ev().state.get() == EVENT_SET, "C07.set_from_awaiting_publishes_set");
                assert!(unsafe { WAKES == 1 && PAYLOAD_DROPS == 0 }, "C07.set_wakes_the_registered_waker_once");
            }
            _ => {
                assert!(res == Err(Disconnected), "C07.set_after_receiver_gone_reports_disconnected (sender must release)");
                assert!(unsafe { PAYLOAD_DROPS == 1 && WAKES == 0 }, "C07.set_after_receiver_gone_drops_payload_once");
            }
        }
        if res.is_ok() {
            assert!(rep_inv(), "C07.set_value_initialised_iff_set");
        }
        assert!(unsafe { CB_INVARIANT_OK && CB_TERMINAL_AT_WAKE }, "C07.terminal_state_published_before_callback");
        assert!(waker_balance_ok(0), "C07.set_waker_conservation");
    }

    #[kani::proof]
    #[kani::stub(crate::backtrace::capture_backtrace, stub_bt)]
    fn event_sender_dropped_contract() {
        let (r, pre) = any_event(&ALL_SENDER_PRE);
        let res = LocalEvent::sender_dropped_without_set(&r);
        assert!(ev().state.get() == EVENT_DISCONNECTED, "C07.sender_drop_publishes_disconnected");
        assert!(res.is_ok() == (pre != EVENT_DISCONNECTED), "C07.sender_drop_cleanup_ownership");
        assert!(unsafe { WAKES } == awaiter_wakers(pre), "C07.sender_drop_wakes_registered_waker_once");
        assert!(unsafe { CB_INVARIANT_OK && CB_TERMINAL_AT_WAKE }, "C07.terminal_state_published_before_callback");
        assert!(unsafe { PAYLOAD_DROPS } == 0 && waker_balance_ok(0), "C07.sender_drop_accounting");
    }

    #[kani::proof]
    #[kani::stub(crate::backtrace::capture_backtrace, stub_bt)]
    fn event_poll_contract() {
        let (_r, pre) = any_event(&ALL_RECEIVER_PRE);
        let pre_value = unsafe { EXPECT_VALUE };
        let w = new_waker();
        let res = ev().poll(&w);
        match pre {
            EVENT_BOUND | EVENT_AWAITING => {
                assert!(res.is_none() && ev().state.get() == EVENT_AWAITING, "C07.poll_registers_and_stays_pending");
                assert!(rep_inv(), "C07.poll_awaiter_initialised_iff_awaiting");
            }
            EVENT_SET => {
                assert!(matches!(res, Some(Ok(ref p)) if Some(p.0) == pre_value), "C07.poll_set_hands_over_the_payload");
            }
            _ => assert!(matches!(res, Some(Err(Disconnected))), "C07.poll_disconnected_reports_disconnect"),
        }
        assert!(waker_balance_ok(1), "C07.poll_waker_conservation (latest waker kept, previous dropped)");
        assert!(unsafe { CB_INVARIANT_OK }, "C07.rep_invariant_at_callbacks");
        assert!(unsafe { PAYLOAD_DROPS } == 0, "C07.poll_never_drops_payload");
        core::mem::forget(res);
        core::mem::forget(w);
    }

    #[kani::proof]
    #[kani::stub(crate::backtrace::capture_backtrace, stub_bt)]
    fn event_final_poll_contract() {
        let (r, pre) = any_event(&ALL_RECEIVER_PRE);
        let pre_value = unsafe { EXPECT_VALUE };
        let res = LocalEvent::final_poll(&r);
        assert!(ev().state.get() == EVENT_DISCONNECTED, "C07.final_poll_publishes_disconnected");
        match pre {
            EVENT_BOUND | EVENT_AWAITING => assert!(matches!(res, Ok(None)), "C07.final_poll_before_sender_leaves_cleanup_to_sender"),
            EVENT_SET => assert!(matches!(res, Ok(Some(ref p)) if Some(p.0) == pre_value), "C07.final_poll_set_returns_payload"),
            _ => assert!(matches!(res, Err(Disconnected)), "C07.final_poll_disconnected"),
        }
        assert!(waker_balance_ok(0), "C07.final_poll_drops_registered_waker_once");
        assert!(unsafe { CB_INVARIANT_OK }, "C07.rep_invariant_at_callbacks");
        assert!(unsafe { PAYLOAD_DROPS } == 0, "C07.final_poll_never_drops_payload_itself");
        core::mem::forget(res);
    }

    #[kani::proof]
    fn event_is_set_contract() {
        let (_r, pre) = any_event(&ALL_RECEIVER_PRE);
        assert!(ev().is_set() == (pre == EVENT_SET || pre == EVENT_DISCONNECTED), "C07.is_ready_iff_terminal");
    }

    // ================================================================== U7.2 + U7.3: endpoint cores with interference
    /// Sender side: `send` or drop from any legal pre-state, while a live receiver may complete (and release the
    /// storage) from inside the wake callback.
    #[kani::proof]
    #[kani::stub(crate::backtrace::capture_backtrace, stub_bt)]
    fn sender_core_contract_with_reentrant_receiver() {
        let (r, pre) = any_event(&ALL_SENDER_PRE);
        unsafe { OTHER = if pre == EVENT_DISCONNECTED { 0 } else { 2 } };
        let sender = LocalSenderCore::new(r);
        let send: bool = kani::any();
        let v: u32 = kani::any();
        if send {
            unsafe { EXPECT_VALUE = Some(v) };
            sender.send(Payload(v));
        } else {
            drop(sender);
        }
        let receiver_completed = pre != EVENT_DISCONNECTED && unsafe { OTHER } == 0;
        // storage: released exactly once iff an endpoint was the last one out
        let expect_releases = if pre == EVENT_DISCONNECTED || receiver_completed { 1 } else { 0 };
        assert!(unsafe { RELEASES } == expect_releases, "C07.exactly_one_release_by_the_last_endpoint");
        assert!(unsafe { CB_INVARIANT_OK && CB_TERMINAL_AT_WAKE }, "C07.terminal_state_published_before_callback");
        assert!(unsafe { WAKES } == awaiter_wakers(pre), "C07.registered_waker_woken_exactly_once");
        // payload: handed over or dropped exactly once, or still in the event for the receiver
        let in_event = if unsafe { RELEASES } == 0 && ev().state.get() == EVENT_SET { 1 } else { 0 };
        let sent = if send { 1 } else { 0 };
        assert!(unsafe { PAYLOAD_DROPS + DELIVERED } + in_event == sent, "C07.payload_delivered_or_dropped_exactly_once");
        assert!(waker_balance_ok(0), "C07.every_cloned_waker_dropped_exactly_once");
        if unsafe { RELEASES } == 0 {
            assert!(rep_inv(), "C07.rep_invariant_after");
            assert!(ev().state.get() == if send { EVENT_SET } else { EVENT_DISCONNECTED }, "C07.sender_outcome_state");
        }
        kani::cover!(receiver_completed && send);
        kani::cover!(pre == EVENT_DISCONNECTED && send);
        kani::cover!(pre == EVENT_AWAITING && !receiver_completed);
    }

    /// Receiver side: poll from any legal pre-state while a live sender may send or be dropped from inside the
    /// waker's clone / drop callbacks.
    #[kani::proof]
    #[kani::stub(crate::backtrace::capture_backtrace, stub_bt)]
    fn receiver_core_poll_contract_with_reentrant_sender() {
        let (r, pre) = any_event(&ALL_RECEIVER_PRE);
        let pre_value = unsafe { EXPECT_VALUE };
        let sender_alive = pre == EVENT_BOUND || pre == EVENT_AWAITING;
        unsafe { OTHER = if sender_alive { 1 } else { 0 } };
        let mut receiver = LocalReceiverCore::new(r);
        let w = new_waker();
        let res = {
            let mut cx = Context::from_waker(&w);
            Pin::new(&mut receiver).poll(&mut cx)
        };
        let sender_acted = sender_alive && unsafe { OTHER } == 0;
        match &res {
            Poll::Ready(Ok(p)) => {
                // the outcome is the sent value iff a send was observed
                assert!(Some(p.0) == pre_value || Some(p.0) == unsafe { HAVOC_SENT }, "C07.ready_value_is_the_sent_value");
                assert!(pre == EVENT_SET || unsafe { HAVOC_SENT }.is_some(), "C07.value_only_if_sent");
                assert!(unsafe { RELEASES } == 1, "C07.receiver_releases_on_completion");
            }
            Poll::Ready(Err(_)) => {
                assert!(pre == EVENT_DISCONNECTED || (sender_acted && unsafe { HAVOC_SENT }.is_none()), "C07.disconnect_only_if_sender_dropped_unsent");
                assert!(unsafe { RELEASES } == 1, "C07.receiver_releases_on_completion");
            }
            Poll::Pending => {
                assert!(unsafe { RELEASES } == 0, "C07.pending_does_not_release");
                // pending + (a send or sender drop that completed during the poll) => the latest waker was woken
                let st = ev().state.get();
                assert!(st == EVENT_AWAITING || ((st == EVENT_SET || st == EVENT_DISCONNECTED) && unsafe { WAKES } >= 1), "C07.pending_then_completed_means_woken");
                assert!(rep_inv(), "C07.rep_invariant_after");
            }
        }
        assert!(unsafe { CB_INVARIANT_OK }, "C07.rep_invariant_at_callbacks");
        assert!(waker_balance_ok(1), "C07.every_cloned_waker_dropped_exactly_once");
        let delivered = if matches!(res, Poll::Ready(Ok(_))) { 1 } else { 0 };
        let in_event = if unsafe { RELEASES } == 0 && ev().state.get() == EVENT_SET { 1 } else { 0 };
        let sent = if pre == EVENT_SET || unsafe { HAVOC_SENT }.is_some() { 1 } else { 0 };
        assert!(unsafe { PAYLOAD_DROPS } + delivered + in_event == sent, "C07.payload_delivered_or_dropped_exactly_once");
        kani::cover!(matches!(res, Poll::Ready(Ok(_))) && pre == EVENT_BOUND);
        kani::cover!(matches!(res, Poll::Pending) && sender_acted);
        kani::cover!(matches!(res, Poll::Ready(Err(_))) && pre == EVENT_AWAITING);
        core::mem::forget(res);
        core::mem::forget(receiver);
        core::mem::forget(w);
    }

    /// Receiver side: drop / into_value from any legal pre-state, while a live sender may act from inside the
    /// registered waker's drop callback.
    #[kani::proof]
    #[kani::stub(crate::backtrace::capture_backtrace, stub_bt)]
    fn receiver_core_drop_and_into_value_contract_with_reentrant_sender() {
        let (r, pre) = any_event(&ALL_RECEIVER_PRE);
        let pre_value = unsafe { EXPECT_VALUE };
        let sender_alive = pre == EVENT_BOUND || pre == EVENT_AWAITING;
        unsafe { OTHER = if sender_alive { 1 } else { 0 } };
        let receiver = LocalReceiverCore::new(r);
        let consume: bool = kani::any();
        let mut delivered = 0;
        let mut still_pending = false;
        if consume {
            match receiver.into_value() {
                Ok(p) => {
                    assert!(Some(p.0) == pre_value && pre == EVENT_SET, "C07.into_value_returns_the_sent_value");
                    delivered = 1;
                    core::mem::forget(p);
                }
                Err(IntoValueError::Disconnected) => assert!(pre == EVENT_DISCONNECTED, "C07.into_value_disconnected_only_if_sender_dropped_unsent"),
                Err(IntoValueError::Pending(rx)) => {
                    assert!(sender_alive, "C07.into_value_pending_only_before_sender_acts");
                    still_pending = true;
                    core::mem::forget(rx);
                }
            }
        } else {
            drop(receiver);
        }
        let sender_acted = sender_alive && unsafe { OTHER } == 0;
        if still_pending {
            assert!(unsafe { RELEASES } == 0 && ev().state.get() == pre && unsafe { CALLBACKS } == 0, "C07.into_value_pending_changes_nothing");
        } else {
            // the receiver is gone: it released iff the sender had already acted (before or during the call)
            let expect_releases = if !sender_alive || sender_acted { 1 } else { 0 };
            assert!(unsafe { RELEASES } == expect_releases, "C07.exactly_one_release_by_the_last_endpoint");
            if unsafe { RELEASES } == 0 {
                assert!(ev().state.get() == EVENT_DISCONNECTED, "C07.receiver_gone_publishes_disconnected");
            }
            assert!(waker_balance_ok(0), "C07.every_cloned_waker_dropped_exactly_once");
            let sent = if pre == EVENT_SET || unsafe { HAVOC_SENT }.is_some() { 1 } else { 0 };
            assert!(unsafe { PAYLOAD_DROPS } + delivered == sent, "C07.payload_delivered_or_dropped_exactly_once");
        }
        assert!(unsafe { CB_INVARIANT_OK }, "C07.rep_invariant_at_callbacks");
        kani::cover!(!consume && pre == EVENT_AWAITING && sender_acted && unsafe { HAVOC_SENT }.is_some());
        kani::cover!(consume && delivered == 1);
        kani::cover!(!consume && pre == EVENT_BOUND);
    }

    /// `is_ready` agrees with the state (terminal <=> ready).
    #[kani::proof]
    fn receiver_core_is_ready_contract() {
        let (r, pre) = any_event(&ALL_RECEIVER_PRE);
        let receiver = LocalReceiverCore::new(r);
        assert!(receiver.is_ready() == (pre == EVENT_SET || pre == EVENT_DISCONNECTED), "C07.is_ready_iff_terminal");
        core::mem::forget(receiver);
    }

    /// Boxed storage: the real BoxedLocalRef pair frees its allocation exactly once over a complete exchange
    /// (CBMC's double-free / use-after-free checks are the oracle); one harness per order of the final operations.
    fn boxed_exchange(order: u8) {
        let (sender, receiver) = LocalEvent::<Payload>::boxed_core();
        let v: u32 = kani::any();
        match order {
            0 => {
                sender.send(Payload(v));
                match receiver.into_value() {
                    Ok(p) => assert!(p.0 == v, "C07.boxed_value_roundtrip"),
                    _ => assert!(false, "C07.boxed_sent_value_must_be_available"),
                }
            }
            1 => {
                drop(sender);
                assert!(matches!(receiver.into_value(), Err(IntoValueError::Disconnected)), "C07.boxed_disconnect");
            }
            2 => {
                drop(receiver);
                sender.send(Payload(v));
            }
            _ => {
                drop(receiver);
                drop(sender);
            }
        }
        assert!(unsafe { PAYLOAD_DROPS } == if order == 0 || order == 2 { 1 } else { 0 }, "C07.boxed_payload_dropped_exactly_once");
    }
    #[kani::proof]
    #[kani::stub(crate::backtrace::capture_backtrace, stub_bt)]
    fn boxed_exchange_send_then_take() {
        boxed_exchange(0)
    }
    // boxed_exchange(1) (drop the sender, then into_value) did not finish in 3600 s and is not claimed.
    #[kani::proof]
    #[kani::stub(crate::backtrace::capture_backtrace, stub_bt)]
    fn boxed_exchange_drop_receiver_then_send() {
        boxed_exchange(2)
    }
    #[kani::proof]
    #[kani::stub(crate::backtrace::capture_backtrace, stub_bt)]
    fn boxed_exchange_drop_both() {
        boxed_exchange(3)
    }
}
