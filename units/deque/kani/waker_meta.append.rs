
// ===== folo-verif overlay (add-only; compiled only under `cargo kani`) =====
#[cfg(kani)]
#[allow(static_mut_refs)]
mod verif_kani {
    use super::*;

    static mut PARENT_WAKES: u32 = 0;
    static mut PARENT_CLONES: u32 = 0;
    static mut PARENT_DROPS: u32 = 0;
    unsafe fn p_clone(p: *const ()) -> RawWaker {
        unsafe { PARENT_CLONES += 1 };
        RawWaker::new(p, &PVT)
    }
    unsafe fn p_wake(_: *const ()) {
        unsafe {
            PARENT_WAKES += 1;
            PARENT_DROPS += 1;
        }
    }
    unsafe fn p_wake_by_ref(_: *const ()) {
        unsafe { PARENT_WAKES += 1 };
    }
    unsafe fn p_drop(_: *const ()) {
        unsafe { PARENT_DROPS += 1 };
    }
    static PVT: RawWakerVTable = RawWakerVTable::new(p_clone, p_wake, p_wake_by_ref, p_drop);

    /// Metadata built directly (no pool: kani-compiler crashes on `plurality`'s pool), in an arbitrary state with
    /// at least two references (the deque's own + at least one waker), so no call below reaches the free path.
    fn any_meta() -> (WakerMeta, usize, usize) {
        let parent = unsafe { Waker::from_raw(RawWaker::new(core::ptr::null(), &PVT)) };
        let shared_parent = Arc::new(Mutex::new(parent));
        let rc: usize = kani::any();
        kani::assume(rc >= 2 && rc < usize::MAX / 2);
        let act: usize = kani::any();
        kani::assume(act <= 1);
        (WakerMeta { ref_count: AtomicUsize::new(rc), activated: AtomicUsize::new(act), shared_parent }, rc, act)
    }

    #[kani::proof]
    fn make_and_clone_waker_count_references() {
        let (m, rc, act) = any_meta();
        let meta = MetaPtr(&raw const m);
        let w = make_waker(meta);
        assert!(m.ref_count.load(Ordering::Relaxed) == rc + 1, "C15.make_waker_adds_one_reference");
        let w2 = w.clone();
        assert!(m.ref_count.load(Ordering::Relaxed) == rc + 2, "C15.clone_adds_one_reference");
        drop(w2);
        assert!(m.ref_count.load(Ordering::Relaxed) == rc + 1, "C15.drop_releases_one_reference");
        release_ref(meta);
        assert!(m.ref_count.load(Ordering::Relaxed) == rc, "C15.release_ref_releases_one_reference");
        assert!(m.activated.load(Ordering::Relaxed) == act && unsafe { PARENT_WAKES } == 0, "C15.reference_counting_never_wakes");
        core::mem::forget(w);
        core::mem::forget(m);
    }

    /// A wake at any time leaves the future marked for polling and wakes the deque's task iff it was not already
    /// marked (so no wake-up is lost and none is duplicated).
    #[kani::proof]
    fn wake_by_ref_marks_and_wakes_parent_once() {
        let (m, rc, act) = any_meta();
        let meta = MetaPtr(&raw const m);
        let w = make_waker(meta);
        w.wake_by_ref();
        assert!(m.activated.load(Ordering::Relaxed) == 1, "C15.wake_marks_future_for_polling");
        assert!(unsafe { PARENT_WAKES } == if act == 0 { 1 } else { 0 }, "C15.wake_wakes_deque_task_iff_not_already_marked");
        assert!(unsafe { PARENT_CLONES == PARENT_DROPS }, "C15.parent_waker_clone_dropped");
        assert!(m.ref_count.load(Ordering::Relaxed) == rc + 1, "C15.wake_by_ref_keeps_reference");
        w.wake_by_ref();
        assert!(unsafe { PARENT_WAKES } == if act == 0 { 1 } else { 0 }, "C15.second_wake_before_poll_is_coalesced");
        core::mem::forget(w);
        core::mem::forget(m);
    }

    #[kani::proof]
    fn wake_by_value_is_wake_plus_release() {
        let (m, rc, act) = any_meta();
        let meta = MetaPtr(&raw const m);
        let w = make_waker(meta);
        w.wake();
        assert!(m.activated.load(Ordering::Relaxed) == 1, "C15.wake_marks_future_for_polling");
        assert!(unsafe { PARENT_WAKES } == if act == 0 { 1 } else { 0 }, "C15.wake_wakes_deque_task_iff_not_already_marked");
        assert!(m.ref_count.load(Ordering::Relaxed) == rc, "C15.wake_by_value_releases_its_reference");
        core::mem::forget(m);
    }

    /// The deque consumes the mark exactly once per poll round.
    #[kani::proof]
    fn check_activated_returns_and_clears() {
        let (m, _rc, act) = any_meta();
        let meta = MetaPtr(&raw const m);
        assert!(check_activated(meta) == (act == 1), "C15.check_activated_returns_mark");
        assert!(m.activated.load(Ordering::Relaxed) == 0 && !check_activated(meta), "C15.check_activated_clears_mark");
        core::mem::forget(m);
    }
}
