
// ===== folo-verif overlay (add-only; compiled only under `cargo kani`) =====
#[cfg(kani)]
pub(crate) mod verif_kani {
    use super::*;

    /// Arbitrary bucket bounds (NOT assumed sorted: "first bucket whose bound is >= m" is defined for any list).
    pub(crate) fn any_magnitudes<const N: usize>() -> &'static [Magnitude] {
        let mut v: Vec<Magnitude> = Vec::with_capacity(N);
        let mut i = 0;
        while i < N {
            v.push(kani::any());
            i += 1;
        }
        Box::leak(v.into_boxed_slice())
    }

    pub(crate) fn any_local<const N: usize>(mags: &'static [Magnitude]) -> ObservationBag {
        let local = ObservationBag::new(mags);
        let mut i = 0;
        while i < N {
            local.bucket_counts[i].set(kani::any());
            i += 1;
        }
        local.dirty_buckets.set(kani::any());
        local.count.set(kani::any());
        local.sum.set(kani::any());
        local
    }

    pub(crate) fn any_sync<const N: usize>(mags: &'static [Magnitude]) -> ObservationBagSync {
        let sync = ObservationBagSync::new(mags);
        let mut i = 0;
        while i < N {
            sync.bucket_counts[i].store(kani::any(), SYNC_BAG_ACCESS_ORDERING);
            i += 1;
        }
        sync.count.store(kani::any(), SYNC_BAG_ACCESS_ORDERING);
        sync.sum.store(kani::any(), SYNC_BAG_ACCESS_ORDERING);
        sync
    }

    /// Mirror invariant linking a thread-local bag to the published bag it is pushed into:
    /// every bucket that differs is marked dirty (buckets >= 63 share bit 63).
    pub(crate) fn mirror_inv<const N: usize>(local: &ObservationBag, sync: &ObservationBagSync) -> bool {
        let dirty = local.dirty_buckets.get();
        let mut i = 0;
        let mut ok = true;
        while i < N {
            let bit = if i < 63 { i } else { 63 };
            if local.bucket_counts[i].get() != sync.bucket_counts[i].load(SYNC_BAG_ACCESS_ORDERING) && dirty & (1u64 << bit) == 0 {
                ok = false;
            }
            i += 1;
        }
        ok
    }

    /// Dirty bits exist only for existing buckets (bit min(i, 63) for bucket i).
    pub(crate) fn dirty_ok<const N: usize>(local: &ObservationBag) -> bool {
        let allowed: u64 = if N >= 64 { u64::MAX } else { (1u64 << N) - 1 };
        local.dirty_buckets.get() & !allowed == 0
    }

    pub(crate) fn fully_equal<const N: usize>(local: &ObservationBag, sync: &ObservationBagSync) -> bool {
        let mut i = 0;
        let mut ok = local.count.get() == sync.count.load(SYNC_BAG_ACCESS_ORDERING) && local.sum.get() == sync.sum.load(SYNC_BAG_ACCESS_ORDERING);
        while i < N {
            if local.bucket_counts[i].get() != sync.bucket_counts[i].load(SYNC_BAG_ACCESS_ORDERING) {
                ok = false;
            }
            i += 1;
        }
        ok
    }

    /// The first bucket whose inclusive upper bound is at least m (None = implicit overflow bucket).
    fn first_fit<const N: usize>(mags: &[Magnitude], m: Magnitude) -> Option<usize> {
        let mut i = 0;
        let mut r = None;
        while i < N {
            if r.is_none() && m <= mags[i] {
                r = Some(i);
            }
            i += 1;
        }
        r
    }

    fn local_insert_contract<const N: usize>() {
        let mags = any_magnitudes::<N>();
        let local = any_local::<N>(mags);
        let sync = any_sync::<N>(mags);
        kani::assume(mirror_inv::<N>(&local, &sync) && dirty_ok::<N>(&local));
        let mut before = [0u64; N];
        let mut i = 0;
        while i < N {
            before[i] = local.bucket_counts[i].get();
            i += 1;
        }
        let (c0, s0, d0) = (local.count.get(), local.sum.get(), local.dirty_buckets.get());
        let m: Magnitude = kani::any();
        let cnt: usize = kani::any();
        local.insert(m, cnt);
        assert!(local.count.get() == c0.wrapping_add(cnt as u64), "C16.insert_count_adds_batch_size");
        assert!(local.sum.get() == s0.wrapping_add(m.wrapping_mul(cnt as i64)), "C16.insert_sum_adds_m_times_n");
        let fit = first_fit::<N>(mags, m);
        let mut i = 0;
        while i < N {
            let expect = if fit == Some(i) { before[i].wrapping_add(cnt as u64) } else { before[i] };
            assert!(local.bucket_counts[i].get() == expect, "C16.insert_lands_in_first_bucket_with_bound_ge_m_only");
            i += 1;
        }
        assert!(local.dirty_buckets.get() & d0 == d0, "C16.insert_never_clears_dirty_bits");
        if cnt == 0 {
            assert!(local.dirty_buckets.get() == d0, "C16.insert_zero_batch_changes_nothing");
        }
        assert!(mirror_inv::<N>(&local, &sync), "C16.insert_preserves_mirror_invariant");
        assert!(dirty_ok::<N>(&local), "C16.insert_marks_only_existing_buckets_dirty");
        kani::cover!(N == 0 || fit.is_none());
        kani::cover!(N == 0 || fit == Some(N - 1));
        kani::cover!(cnt > 1);
        kani::cover!(m < 0);
    }

    /// More than 63 buckets (65, fixed bounds 0,10,..,640), arbitrary counters: an insert into ANY bucket - in
    /// particular bucket 64, which shares dirty bit 63 - keeps the mirror invariant, so the next publish copies it.
    /// (The fully symbolic n65 harness is thorough-only: symbolic bounds make the 65-way search expensive.)
    #[kani::proof]
    #[kani::unwind(68)]
    fn local_insert_mirror_invariant_n65_fixed_bounds() {
        const N: usize = 65;
        let mut v: Vec<Magnitude> = Vec::with_capacity(N);
        let mut i = 0;
        while i < N {
            v.push((i as Magnitude) * 10);
            i += 1;
        }
        let mags: &'static [Magnitude] = Box::leak(v.into_boxed_slice());
        let local = any_local::<N>(mags);
        let sync = any_sync::<N>(mags);
        kani::assume(mirror_inv::<N>(&local, &sync) && dirty_ok::<N>(&local));
        let m: Magnitude = kani::any();
        let cnt: usize = kani::any();
        local.insert(m, cnt);
        assert!(mirror_inv::<N>(&local, &sync), "C16.insert_preserves_mirror_invariant (incl. buckets >= 63)");
        kani::cover!(m > 630 && m <= 640 && cnt > 0);
        kani::cover!(m > 620 && m <= 630 && cnt > 0);
    }

    fn sync_insert_contract<const N: usize>() {
        let mags = any_magnitudes::<N>();
        let sync = any_sync::<N>(mags);
        let mut before = [0u64; N];
        let mut i = 0;
        while i < N {
            before[i] = sync.bucket_counts[i].load(SYNC_BAG_ACCESS_ORDERING);
            i += 1;
        }
        let (c0, s0) = (sync.count.load(SYNC_BAG_ACCESS_ORDERING), sync.sum.load(SYNC_BAG_ACCESS_ORDERING));
        let m: Magnitude = kani::any();
        let cnt: usize = kani::any();
        sync.insert(m, cnt);
        assert!(sync.count.load(SYNC_BAG_ACCESS_ORDERING) == c0.wrapping_add(cnt as u64), "C16.sync_insert_count_adds_batch_size");
        assert!(sync.sum.load(SYNC_BAG_ACCESS_ORDERING) == s0.wrapping_add(m.wrapping_mul(cnt as i64)), "C16.sync_insert_sum");
        let fit = first_fit::<N>(mags, m);
        let mut i = 0;
        while i < N {
            let expect = if fit == Some(i) { before[i].wrapping_add(cnt as u64) } else { before[i] };
            assert!(sync.bucket_counts[i].load(SYNC_BAG_ACCESS_ORDERING) == expect, "C16.sync_insert_lands_in_first_bucket_with_bound_ge_m_only");
            i += 1;
        }
        // the pull-model snapshot is the state
        let snap = sync.snapshot();
        assert!(snap.count == sync.count.load(SYNC_BAG_ACCESS_ORDERING) && snap.sum == sync.sum.load(SYNC_BAG_ACCESS_ORDERING) && snap.bucket_counts.len() == N, "C16.snapshot_is_state");
        let mut i = 0;
        while i < N {
            assert!(snap.bucket_counts[i] == sync.bucket_counts[i].load(SYNC_BAG_ACCESS_ORDERING), "C16.snapshot_is_state");
            i += 1;
        }
    }

    fn copy_from_contract<const N: usize>() {
        let mags = any_magnitudes::<N>();
        let local = any_local::<N>(mags);
        let sync = any_sync::<N>(mags);
        kani::assume(mirror_inv::<N>(&local, &sync) && dirty_ok::<N>(&local));
        let mut before = [0u64; N];
        let mut i = 0;
        while i < N {
            before[i] = local.bucket_counts[i].get();
            i += 1;
        }
        let (c0, s0) = (local.count.get(), local.sum.get());
        sync.copy_from(&local);
        assert!(fully_equal::<N>(&local, &sync), "C16.publish_makes_global_equal_local (nothing dropped, nothing counted twice)");
        assert!(local.dirty_buckets.get() == 0, "C16.publish_clears_dirty");
        assert!(local.count.get() == c0 && local.sum.get() == s0, "C16.publish_keeps_local");
        let mut i = 0;
        while i < N {
            assert!(local.bucket_counts[i].get() == before[i], "C16.publish_keeps_local");
            i += 1;
        }
        kani::cover!(N == 0 || local.bucket_counts[N - 1].get() != 0);
    }

    /// Publishing with more than 63 buckets: buckets 0..59 are clean and equal, buckets 60..64 arbitrary under the
    /// mirror invariant (63 and 64 share dirty bit 63): afterwards the published bag equals the local one.
    #[kani::proof]
    #[kani::unwind(530)]
    fn copy_from_overflow_buckets_n65() {
        const N: usize = 65;
        let mut v: Vec<Magnitude> = Vec::with_capacity(N);
        let mut i = 0;
        while i < N {
            v.push((i as Magnitude) * 10);
            i += 1;
        }
        let mags: &'static [Magnitude] = Box::leak(v.into_boxed_slice());
        let local = ObservationBag::new(mags);
        let sync = ObservationBagSync::new(mags);
        let mut i = 60;
        while i < N {
            local.bucket_counts[i].set(kani::any());
            sync.bucket_counts[i].store(kani::any(), SYNC_BAG_ACCESS_ORDERING);
            i += 1;
        }
        let dirty: u64 = kani::any();
        kani::assume(dirty & ((1u64 << 60) - 1) == 0);
        local.dirty_buckets.set(dirty);
        local.count.set(kani::any());
        local.sum.set(kani::any());
        kani::assume(mirror_inv::<N>(&local, &sync));
        sync.copy_from(&local);
        assert!(fully_equal::<N>(&local, &sync), "C16.publish_makes_global_equal_local (buckets >= 63 share a dirty bit)");
        assert!(local.dirty_buckets.get() == 0, "C16.publish_clears_dirty");
        kani::cover!(local.bucket_counts[64].get() != 0 && dirty == 1u64 << 63);
    }

    fn sync_merge_contract<const N: usize>() {
        let mags = any_magnitudes::<N>();
        let a = any_sync::<N>(mags);
        let b = any_sync::<N>(mags);
        let mut before = [0u64; N];
        let mut i = 0;
        while i < N {
            before[i] = a.bucket_counts[i].load(SYNC_BAG_ACCESS_ORDERING);
            i += 1;
        }
        let (c0, s0) = (a.count.load(SYNC_BAG_ACCESS_ORDERING), a.sum.load(SYNC_BAG_ACCESS_ORDERING));
        a.merge_from(&b);
        assert!(a.count.load(SYNC_BAG_ACCESS_ORDERING) == c0.wrapping_add(b.count.load(SYNC_BAG_ACCESS_ORDERING)), "C16.merge_adds_counts");
        assert!(a.sum.load(SYNC_BAG_ACCESS_ORDERING) == s0.wrapping_add(b.sum.load(SYNC_BAG_ACCESS_ORDERING)), "C16.merge_adds_sums");
        let mut i = 0;
        while i < N {
            assert!(a.bucket_counts[i].load(SYNC_BAG_ACCESS_ORDERING) == before[i].wrapping_add(b.bucket_counts[i].load(SYNC_BAG_ACCESS_ORDERING)), "C16.merge_adds_buckets");
            i += 1;
        }
    }

    fn snapshot_merge_contract<const N: usize>() {
        let mags = any_magnitudes::<N>();
        let a = any_sync::<N>(mags);
        let b = any_local::<N>(mags);
        let mut sa = a.snapshot();
        let sb = b.snapshot();
        assert!(sb.count == b.count.get() && sb.sum == b.sum.get() && sb.bucket_counts.len() == N, "C16.local_snapshot_is_state");
        let mut before = [0u64; N];
        let mut i = 0;
        while i < N {
            before[i] = sa.bucket_counts[i];
            assert!(sb.bucket_counts[i] == b.bucket_counts[i].get(), "C16.local_snapshot_is_state");
            i += 1;
        }
        let (c0, s0) = (sa.count, sa.sum);
        sa.merge_from(&sb);
        assert!(sa.count == c0.wrapping_add(sb.count) && sa.sum == s0.wrapping_add(sb.sum), "C16.snapshot_merge_adds");
        let mut i = 0;
        while i < N {
            assert!(sa.bucket_counts[i] == before[i].wrapping_add(sb.bucket_counts[i]), "C16.snapshot_merge_adds_buckets");
            i += 1;
        }
    }

    #[kani::proof]
    fn clear_lowest_set_bit_contract() {
        let v: u64 = kani::any();
        kani::assume(v != 0);
        let r = clear_lowest_set_bit(v);
        let t = v.trailing_zeros();
        assert!(r == v & !(1u64 << t), "C16.clear_lowest_set_bit");
    }

    macro_rules! inst {
        ($name:ident, $unwind:expr, $body:expr) => {
            #[kani::proof]
            #[kani::unwind($unwind)]
            fn $name() {
                $body
            }
        };
    }
    inst!(local_insert_contract_n0, 3, local_insert_contract::<0>());
    inst!(local_insert_contract_n1, 4, local_insert_contract::<1>());
    inst!(local_insert_contract_n3, 6, local_insert_contract::<3>());
    inst!(local_insert_contract_n65, 68, local_insert_contract::<65>());
    inst!(sync_insert_contract_n0, 3, sync_insert_contract::<0>());
    inst!(sync_insert_contract_n3, 6, sync_insert_contract::<3>());
    inst!(copy_from_contract_n0, 3, copy_from_contract::<0>());
    inst!(copy_from_contract_n3, 30, copy_from_contract::<3>());
    inst!(sync_merge_contract_n3, 30, sync_merge_contract::<3>());
    inst!(snapshot_merge_contract_n3, 30, snapshot_merge_contract::<3>());
}
