
// ===== folo-verif overlay (add-only; compiled only under `cargo kani`) =====
#[cfg(kani)]
mod verif_kani {
    use super::*;

    /// The report entry built from a merged snapshot shows exactly the snapshot's count, sum and per-bucket counts;
    /// the implicit overflow bucket holds what is left: count - sum(buckets).
    #[kani::proof]
    #[kani::unwind(6)]
    fn event_metrics_from_snapshot_contract() {
        const N: usize = 3;
        let mags: &'static [Magnitude] = Box::leak(vec![kani::any::<Magnitude>(), kani::any(), kani::any()].into_boxed_slice());
        let b: [u64; N] = [kani::any(), kani::any(), kani::any()];
        let count: u64 = kani::any();
        let sum: Magnitude = kani::any();
        // totals are totals: the buckets never hold more than the count (mirror / merge contracts), no wrap
        kani::assume(b[0] <= u64::MAX / 4 && b[1] <= u64::MAX / 4 && b[2] <= u64::MAX / 4);
        let snapshot = ObservationBagSnapshot { count, sum, bucket_magnitudes: mags, bucket_counts: Box::new(b) };
        let m = EventMetrics::new("e".into(), snapshot);
        assert!(m.count() == count && m.sum() == sum, "C16.report_shows_count_and_sum_of_the_snapshot");
        let h = m.histogram().expect("C16.report_has_histogram_when_buckets_configured");
        assert!(h.counts.len() == N && h.counts[0] == b[0] && h.counts[1] == b[1] && h.counts[2] == b[2], "C16.report_bucket_counts_are_the_snapshot_buckets");
        assert!(h.plus_infinity_bucket_count == count.saturating_sub(b[0] + b[1] + b[2]), "C16.report_overflow_bucket_is_the_remainder");
        assert!(h.magnitudes.len() == N && h.magnitudes[0] == mags[0] && h.magnitudes[2] == mags[2], "C16.report_bucket_bounds_unchanged");
        if count == 0 {
            assert!(m.mean() == 0, "C16.report_mean_of_nothing_is_zero");
        }
        core::mem::forget(m);
    }
}
