
// ===== folo-verif overlay (add-only; compiled only under `cargo kani`) =====
#[cfg(kani)]
mod verif_kani {
    use super::*;
    use crate::observations::verif_kani::{any_local, any_magnitudes, any_sync, dirty_ok, fully_equal, mirror_inv};

    const N: usize = 1;

    /// push(): under the pair invariant
    ///   mirror_inv  /\  (local.count == last_pushed_count  ==>  global == local)
    /// EVERY registered pair's published bag equals its local bag afterwards, whether or not an individual pair was
    /// skipped - in particular an idle pair earlier in the registry does not hide a later one.
    /// The second conjunct is the documented wrap-around caveat made explicit (it can only break after 2^64
    /// observations between two pushes).
    #[kani::proof]
    #[kani::unwind(22)]
    fn push_contract() {
        let mags = any_magnitudes::<N>();
        let pusher = MetricsPusher::new();
        let mut locals: Vec<Rc<ObservationBag>> = Vec::new();
        let mut globals: Vec<Arc<ObservationBagSync>> = Vec::new();
        let mut k = 0;
        while k < 2 {
            let local = Rc::new(any_local::<N>(mags));
            let global = Arc::new(any_sync::<N>(mags));
            let last: u64 = kani::any();
            kani::assume(mirror_inv::<N>(&local, &global) && dirty_ok::<N>(&local));
            kani::assume(local.count() != last || fully_equal::<N>(&local, &global));
            pusher.push_registry.borrow_mut().push(LocalGlobalPair { local: Rc::clone(&local), global: Arc::clone(&global), last_pushed_count: Cell::new(last) });
            locals.push(local);
            globals.push(global);
            k += 1;
        }
        let first_idle = locals[0].count() == pusher.push_registry.borrow()[0].last_pushed_count.get();
        let second_idle = locals[1].count() == pusher.push_registry.borrow()[1].last_pushed_count.get();
        pusher.push();
        let mut k = 0;
        while k < 2 {
            assert!(fully_equal::<N>(&locals[k], &globals[k]), "C16.push_publishes_everything_observed_so_far (every registered event)");
            assert!(pusher.push_registry.borrow()[k].last_pushed_count.get() == locals[k].count(), "C16.push_records_pushed_count");
            assert!(mirror_inv::<N>(&locals[k], &globals[k]), "C16.push_preserves_mirror_invariant");
            k += 1;
        }
        kani::cover!(first_idle && !second_idle);
        kani::cover!(!first_idle && second_idle);
        kani::cover!(!first_idle && !second_idle);
        core::mem::forget(pusher);
    }
}
