
// ===== folo-verif overlay (add-only; compiled only under `cargo kani`) =====
#[cfg(kani)]
mod verif_kani {
    use super::*;
    use crate::observations::verif_kani::{any_local, any_magnitudes, any_sync, dirty_ok, fully_equal, mirror_inv};

    const N: usize = 2;

    /// push(): under the pair invariant
    ///   mirror_inv  /\  (local.count == last_pushed_count  ==>  global == local)
    /// the published bag equals the local bag afterwards, whether or not the pair was skipped.
    /// The second conjunct is the documented wrap-around caveat made explicit (it can only break after 2^64
    /// observations between two pushes).
    #[kani::proof]
    #[kani::unwind(22)]
    fn push_contract() {
        let mags = any_magnitudes::<N>();
        let local = Rc::new(any_local::<N>(mags));
        let global = Arc::new(any_sync::<N>(mags));
        let last: u64 = kani::any();
        kani::assume(mirror_inv::<N>(&local, &global) && dirty_ok::<N>(&local));
        kani::assume(local.count() != last || fully_equal::<N>(&local, &global));
        let pusher = MetricsPusher::new();
        pusher.push_registry.borrow_mut().push(LocalGlobalPair { local: Rc::clone(&local), global: Arc::clone(&global), last_pushed_count: Cell::new(last) });
        pusher.push();
        assert!(fully_equal::<N>(&local, &global), "C16.push_publishes_everything_observed_so_far");
        assert!(pusher.push_registry.borrow()[0].last_pushed_count.get() == local.count(), "C16.push_records_pushed_count");
        assert!(mirror_inv::<N>(&local, &global), "C16.push_preserves_mirror_invariant");
        kani::cover!(local.count() == last);
        kani::cover!(local.count() != last);
        core::mem::forget(pusher);
    }
}
