//! Native search for a failing input of the REAL observation bags (the repository's observations.rs is compiled
//! into this crate by path, unmodified): a thread-local bag is filled, published into a sync bag with copy_from
//! and compared with a reference model, for 0..70 buckets, magnitudes on and next to every bound, batches.
#![allow(dead_code, unused_imports, clippy::all)]

pub type Magnitude = i64;

#[path = "@STAGE@/packages/nm_impl/src/observations.rs"]
mod observations;
use observations::{ObservationBag, ObservationBagSync, Observations};

struct Lcg(u64);
impl Lcg {
    fn next(&mut self) -> u64 {
        self.0 = self.0.wrapping_mul(6364136223846793005).wrapping_add(1442695040888963407);
        self.0 >> 33
    }
}

fn run(seed: u64, n: usize, steps: usize) -> Option<String> {
    let mut rng = Lcg(seed);
    let bounds: &'static [Magnitude] = Box::leak((0..n as i64).map(|i| i * 10 - 50).collect::<Vec<_>>().into_boxed_slice());
    let local = ObservationBag::new(bounds);
    let global = ObservationBagSync::new(bounds);
    // a second synchronised bag that receives every observation directly (the pull-model path)
    let direct = ObservationBagSync::new(bounds);
    let mut model_count = 0u64;
    let mut model_sum = 0i64;
    let mut model_buckets = vec![0u64; n];
    let mut trace = Vec::new();
    for _ in 0..steps {
        let op = rng.next() % 8;
        if op == 0 {
            global.copy_from(&local);
            trace.push("publish".to_string());
            let snap = global.snapshot();
            if snap.count != model_count || snap.sum != model_sum || &*snap.bucket_counts != &model_buckets[..] {
                let bad = (0..n).find(|&i| snap.bucket_counts[i] != model_buckets[i]);
                return Some(format!("buckets={n}: after {} the published bag differs from the observations made (count {} vs {}, first differing bucket {:?})", trace.join(" "), snap.count, model_count, bad));
            }
        } else {
            let m: i64 = match rng.next() % 4 {
                0 => (rng.next() % (n as u64 + 2)) as i64 * 10 - 50,          // exactly on a bound
                1 => (rng.next() % (n as u64 + 2)) as i64 * 10 - 49,          // just above a bound
                2 => i64::MIN + (rng.next() % 3) as i64,
                _ => (rng.next() % 2000) as i64 - 100,
            };
            let cnt = (rng.next() % 4) as usize;
            local.insert(m, cnt);
            direct.insert(m, cnt);
            trace.push(format!("observe({m},x{cnt})"));
            if cnt > 0 {
                model_count = model_count.wrapping_add(cnt as u64);
                model_sum = model_sum.wrapping_add(m.wrapping_mul(cnt as i64));
                if let Some(i) = bounds.iter().position(|b| m <= *b) {
                    model_buckets[i] += cnt as u64;
                }
            }
            let snap = local.snapshot();
            if snap.count != model_count || snap.sum != model_sum || &*snap.bucket_counts != &model_buckets[..] {
                return Some(format!("buckets={n}: after {} the local bag differs from the observations made", trace.join(" ")));
            }
            let snap = direct.snapshot();
            if snap.count != model_count || snap.sum != model_sum || &*snap.bucket_counts != &model_buckets[..] {
                let bad = (0..n).find(|&i| snap.bucket_counts[i] != model_buckets[i]);
                return Some(format!("buckets={n} (bounds -50, -40, ..): after {} the synchronised bag that received the observations directly differs (count {} vs {}, first differing bucket {:?})", trace[trace.len().saturating_sub(6)..].join(" "), snap.count, model_count, bad));
            }
        }
    }
    None
}

fn main() {
    std::panic::set_hook(Box::new(|_| {}));
    let mut failures = 0;
    let mut runs = 0u32;
    for &n in &[0usize, 1, 3, 63, 64, 65, 70] {
        for seed in 0..150u64 {
            runs += 1;
            match std::panic::catch_unwind(|| run(seed * 104729 + n as u64, n, 40)) {
                Ok(None) => {}
                Ok(Some(msg)) => {
                    failures += 1;
                    println!("FAILING-INPUT {}", &msg[..msg.len().min(600)]);
                }
                Err(_) => {
                    failures += 1;
                    println!("FAILING-INPUT buckets={n} seed={seed}: the bag panicked");
                }
            }
            if failures >= 3 {
                println!("runs={runs} failures={failures}");
                return;
            }
        }
    }
    println!("runs={runs} failures={failures}");
}
