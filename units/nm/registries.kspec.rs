// Single-file Kani unit: packages/nm_impl/src/registries.rs, the WHOLE FILE cut out of /repo on every run (`extract
// file`), over stand-ins for its surroundings: the hash map (a 3-slot association list offering exactly the calls the
// file makes), RwLock (read / write guards, no poisoning, single thread), thread ids (a ghost "current thread"), and
// the synchronised observation bag as an ACCOUNT: every bag carries the number of observations recorded in it, and
// `merge_from` adds the other bag's number (the contract of the real ObservationBagSync::merge_from is established by
// the in-crate harness sync_merge_from_contract of this unit). What is decided: at every stage of registering events
// on two threads and tearing the threads down in either order, what `inspect` shows a report adds up to exactly the
// observations recorded - nothing lost at thread exit, nothing counted twice (live map and archive).
#![allow(dead_code, unused_imports, clippy::all)]
use std::cell::Cell;

pub type Magnitude = i64;
/// data_types.rs: `EventName = Cow<'static, str>`; here a one-byte name (string comparison compiles to memcmp loops
/// that CBMC unrolls at great cost; the registry only clones, compares and prints names).
#[derive(Clone, Debug, PartialEq, Eq)]
pub struct EventName(u8);
impl From<&'static str> for EventName {
    fn from(s: &'static str) -> Self {
        EventName(s.as_bytes()[0])
    }
}
impl std::fmt::Display for EventName {
    fn fmt(&self, f: &mut std::fmt::Formatter<'_>) -> std::fmt::Result {
        f.write_str("event")
    }
}
pub(crate) const ERR_POISONED_LOCK: &str = "encountered poisoned lock";

// ---- thread identity -------------------------------------------------------------------------------------------
#[derive(Clone, Copy, Debug, PartialEq, Eq, Hash)]
pub struct ThreadId(u64);
pub static mut GHOST_CURRENT_THREAD: u64 = 1;
pub mod thread {
    pub use super::ThreadId;
    pub struct Thread;
    pub fn current() -> Thread {
        Thread
    }
    impl Thread {
        pub fn id(&self) -> ThreadId {
            // SAFETY: single-threaded harness.
            super::ThreadId(unsafe { super::GHOST_CURRENT_THREAD })
        }
    }
}

// ---- RwLock ----------------------------------------------------------------------------------------------------
#[derive(Debug, Default)]
pub struct RwLock<T> {
    readers: Cell<usize>,
    writer: Cell<bool>,
    value: std::cell::UnsafeCell<T>,
}
// SAFETY: single-threaded harness; mirrors std's bounds.
unsafe impl<T: Send> Send for RwLock<T> {}
// SAFETY: as above.
unsafe impl<T: Send + Sync> Sync for RwLock<T> {}
#[derive(Debug)]
pub struct PoisonError;
pub struct ReadGuard<'a, T> {
    l: &'a RwLock<T>,
}
pub struct WriteGuard<'a, T> {
    l: &'a RwLock<T>,
}
impl<T> RwLock<T> {
    pub fn new(value: T) -> Self {
        Self { readers: Cell::new(0), writer: Cell::new(false), value: std::cell::UnsafeCell::new(value) }
    }
    pub fn read(&self) -> Result<ReadGuard<'_, T>, PoisonError> {
        assert!(!self.writer.get(), "RwLock::read requires: not write-locked by this thread (std deadlocks or panics)");
        self.readers.set(self.readers.get() + 1);
        Ok(ReadGuard { l: self })
    }
    pub fn write(&self) -> Result<WriteGuard<'_, T>, PoisonError> {
        assert!(!self.writer.get() && self.readers.get() == 0, "RwLock::write requires: not locked by this thread (std deadlocks or panics)");
        self.writer.set(true);
        Ok(WriteGuard { l: self })
    }
}
impl<T> std::ops::Deref for ReadGuard<'_, T> {
    type Target = T;
    fn deref(&self) -> &T {
        // SAFETY: shared access under a read guard.
        unsafe { &*self.l.value.get() }
    }
}
impl<T> Drop for ReadGuard<'_, T> {
    fn drop(&mut self) {
        self.l.readers.set(self.l.readers.get() - 1);
    }
}
impl<T> std::ops::Deref for WriteGuard<'_, T> {
    type Target = T;
    fn deref(&self) -> &T {
        // SAFETY: exclusive access under the write guard.
        unsafe { &*self.l.value.get() }
    }
}
impl<T> std::ops::DerefMut for WriteGuard<'_, T> {
    fn deref_mut(&mut self) -> &mut T {
        // SAFETY: exclusive access under the write guard.
        unsafe { &mut *self.l.value.get() }
    }
}
impl<T> Drop for WriteGuard<'_, T> {
    fn drop(&mut self) {
        self.l.writer.set(false);
    }
}

// ---- HashMap ---------------------------------------------------------------------------------------------------
#[derive(Debug)]
pub struct HashMap<K, V> {
    slots: [Option<(K, V)>; 3],
}
impl<K, V> Default for HashMap<K, V> {
    fn default() -> Self {
        Self { slots: [None, None, None] }
    }
}
pub struct MapEntry<'a, K, V> {
    map: &'a mut HashMap<K, V>,
    key: K,
}
impl<K: PartialEq, V> HashMap<K, V> {
    fn position<Q: ?Sized>(&self, k: &Q) -> Option<usize>
    where
        K: std::borrow::Borrow<Q>,
        Q: PartialEq,
    {
        let mut i = 0;
        while i < 3 {
            if let Some((kk, _)) = &self.slots[i] {
                if kk.borrow() == k {
                    return Some(i);
                }
            }
            i += 1;
        }
        None
    }
    pub fn insert(&mut self, k: K, v: V) -> Option<V> {
        if let Some(i) = self.position(&k) {
            return self.slots[i].replace((k, v)).map(|e| e.1);
        }
        let mut j = 0;
        while j < 3 && self.slots[j].is_some() {
            j += 1;
        }
        assert!(j < 3, "stand-in map capacity");
        self.slots[j] = Some((k, v));
        None
    }
    pub fn get<Q: ?Sized>(&self, k: &Q) -> Option<&V>
    where
        K: std::borrow::Borrow<Q>,
        Q: PartialEq,
    {
        let i = self.position(k)?;
        self.slots[i].as_ref().map(|e| &e.1)
    }
    pub fn contains_key<Q: ?Sized>(&self, k: &Q) -> bool
    where
        K: std::borrow::Borrow<Q>,
        Q: PartialEq,
    {
        self.position(k).is_some()
    }
    pub fn remove<Q: ?Sized>(&mut self, k: &Q) -> Option<V>
    where
        K: std::borrow::Borrow<Q>,
        Q: PartialEq,
    {
        let i = self.position(k)?;
        self.slots[i].take().map(|e| e.1)
    }
    pub fn entry(&mut self, key: K) -> MapEntry<'_, K, V> {
        MapEntry { map: self, key }
    }
    pub fn values(&self) -> impl Iterator<Item = &V> {
        self.slots.iter().filter_map(|s| s.as_ref().map(|e| &e.1))
    }
    pub fn iter(&self) -> impl Iterator<Item = (&K, &V)> {
        self.slots.iter().filter_map(|s| s.as_ref().map(|e| (&e.0, &e.1)))
    }
    pub fn len(&self) -> usize {
        self.values().count()
    }
    pub fn is_empty(&self) -> bool {
        self.len() == 0
    }
}
impl<'a, K: PartialEq, V> MapEntry<'a, K, V> {
    pub fn or_insert_with<F: FnOnce() -> V>(self, f: F) -> &'a mut V {
        let i = match self.map.position(&self.key) {
            Some(i) => i,
            None => {
                let mut j = 0;
                while j < 3 && self.map.slots[j].is_some() {
                    j += 1;
                }
                assert!(j < 3, "stand-in map capacity");
                self.map.slots[j] = Some((self.key, f()));
                j
            }
        };
        &mut self.map.slots[i].as_mut().expect("present").1
    }
}

// ---- the observation bag as an account ---------------------------------------------------------------------------
pub trait Observations {
    fn bucket_magnitudes(&self) -> &'static [Magnitude];
}
#[derive(Debug)]
pub struct ObservationBagSync {
    magnitudes: &'static [Magnitude],
    /// observations accounted for in this bag
    count: Cell<u64>,
}
impl ObservationBagSync {
    pub(crate) fn new(bucket_magnitudes: &'static [Magnitude]) -> Self {
        Self { magnitudes: bucket_magnitudes, count: Cell::new(0) }
    }
    pub(crate) fn merge_from(&self, other: &Self) {
        assert!(self.magnitudes.len() == other.magnitudes.len(), "merge_from requires: same bucket layout");
        self.count.set(self.count.get() + other.count.get());
    }
    pub fn ghost_record(&self, n: u64) {
        self.count.set(self.count.get() + n);
    }
}
// SAFETY: single-threaded harness (the real type is Sync through atomics).
unsafe impl Sync for ObservationBagSync {}
impl Observations for ObservationBagSync {
    fn bucket_magnitudes(&self) -> &'static [Magnitude] {
        self.magnitudes
    }
}

mod m_registries {
    use super::*;
//@ extract file packages/nm_impl/src/registries.rs
//@ rewrite "use std::sync::{Arc, LazyLock, RwLock};" "use std::sync::{Arc, LazyLock};"
//@ rewrite "use std::thread::{self, ThreadId};" ""
//@ end

    #[cfg(kani)]
    mod harness {
        use super::*;

        fn reported(g: &GlobalEventRegistry) -> (u64, usize) {
            let mut sum = 0u64;
            let mut maps = 0usize;
            g.inspect(|bags| {
                maps += 1;
                for b in bags.values() {
                    sum += b.count.get();
                }
            });
            (sum, maps)
        }
        fn on_thread(t: u64) {
            // SAFETY: single-threaded harness.
            unsafe { GHOST_CURRENT_THREAD = t };
        }
        static M2: [Magnitude; 2] = [1, 10];
        static M0: [Magnitude; 0] = [];

        /// Two threads register events (one name in common), record observations, and exit in either order: a
        /// report adds up to exactly what was recorded at every stage.
        #[kani::proof]
        #[kani::unwind(5)]
        fn registry_accounts_for_every_observation_across_thread_exit() {
            let g = GlobalEventRegistry::new();
            let (na, nb, nc): (u8, u8, u8) = (kani::any(), kani::any(), kani::any());
            on_thread(1);
            let r1 = LocalEventRegistry::new(&g);
            let a = Arc::new(ObservationBagSync::new(&M2));
            let c = Arc::new(ObservationBagSync::new(&M0));
            r1.register("x".into(), Arc::clone(&a));
            r1.register("y".into(), Arc::clone(&c));
            on_thread(2);
            let r2 = LocalEventRegistry::new(&g);
            let b = Arc::new(ObservationBagSync::new(&M2));
            r2.register("x".into(), Arc::clone(&b));
            a.ghost_record(na as u64);
            b.ghost_record(nb as u64);
            c.ghost_record(nc as u64);
            let total = na as u64 + nb as u64 + nc as u64;
            assert!(reported(&g) == (total, 2), "C16.report_counts_live_threads_once");
            let first_exits_first: bool = kani::any();
            if first_exits_first {
                on_thread(1);
                drop(r1);
                assert!(reported(&g) == (total, 2), "C16.thread_exit_archives_without_loss_or_double_count");
                // the survivor keeps recording
                let more: u8 = kani::any();
                b.ghost_record(more as u64);
                assert!(reported(&g).0 == total + more as u64, "C16.report_after_exit_includes_new_observations");
                on_thread(2);
                drop(r2);
                assert!(reported(&g) == (total + more as u64, 1), "C16.all_threads_gone_everything_is_in_the_archive");
            } else {
                on_thread(2);
                drop(r2);
                assert!(reported(&g) == (total, 2), "C16.thread_exit_archives_without_loss_or_double_count");
                on_thread(1);
                drop(r1);
                assert!(reported(&g) == (total, 1), "C16.all_threads_gone_everything_is_in_the_archive");
            }
            // a thread that never registered anything leaves no trace
            on_thread(3);
            let r3 = LocalEventRegistry::new(&g);
            drop(r3);
            assert!(reported(&g).1 == 1, "C16.unregistered_thread_exit_is_a_no_op");
            kani::cover!(first_exits_first && na == 7 && nb == 9);
        }
    }
}
