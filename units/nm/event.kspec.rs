// Single-file Kani unit: packages/nm_impl/src/event.rs, the WHOLE FILE cut out of /repo on every run (`extract file`:
// minus its #[cfg(test)] module and `use crate::..` imports; the two external imports are rewritten away), compiled
// against stand-ins for its surroundings: the publish model (a recorder of insert(magnitude, count) calls - the
// contract of the real ObservationBag::insert / ObservationBagSync::insert is established by the in-crate harnesses of
// this unit), fast_time's clock (FFI, out of Kani's reach: any elapsed duration), num_traits::AsPrimitive (`as` cast).
#![allow(dead_code, unused_imports, clippy::all)]
use std::cell::Cell;
use std::time::Duration;

pub type Magnitude = i64;
pub trait AsPrimitive<T> {
    fn as_(self) -> T;
}
impl AsPrimitive<i64> for i64 {
    fn as_(self) -> i64 {
        self
    }
}
impl AsPrimitive<i64> for i32 {
    fn as_(self) -> i64 {
        self as i64
    }
}
impl AsPrimitive<i64> for u32 {
    fn as_(self) -> i64 {
        self as i64
    }
}
impl AsPrimitive<i64> for usize {
    fn as_(self) -> i64 {
        self as i64
    }
}
/// fast_time::Clock / Instant (assumed): elapsed() is some duration.
#[derive(Debug)]
pub struct Clock;
#[derive(Debug, Clone, Copy)]
pub struct ClockInstant {
    elapsed_ms: u64,
}
static mut GHOST_ELAPSED_MS: u64 = 0;
impl Clock {
    pub fn new() -> Self {
        Clock
    }
    pub fn now(&mut self) -> ClockInstant {
        // SAFETY: single-threaded harness.
        ClockInstant { elapsed_ms: unsafe { GHOST_ELAPSED_MS } }
    }
}
impl ClockInstant {
    pub fn elapsed(&self, _clock: &mut Clock) -> Duration {
        Duration::from_millis(self.elapsed_ms)
    }
}
pub trait Sealed {}
pub(crate) trait PublishModelPrivate {
    fn insert(&self, magnitude: Magnitude, count: usize);
}
pub trait PublishModel: PublishModelPrivate + Sealed {}
/// Recorder: what reached the observation bag.
#[derive(Debug, Default)]
pub struct Pull {
    calls: Cell<usize>,
    last_magnitude: Cell<Magnitude>,
    last_count: Cell<usize>,
}
impl Sealed for Pull {}
impl PublishModelPrivate for Pull {
    fn insert(&self, magnitude: Magnitude, count: usize) {
        self.calls.set(self.calls.get() + 1);
        self.last_magnitude.set(magnitude);
        self.last_count.set(count);
    }
}
impl PublishModel for Pull {}
pub struct EventBuilder<P>(std::marker::PhantomData<P>);
impl<P> EventBuilder<P> {
    pub fn new() -> Self {
        EventBuilder(std::marker::PhantomData)
    }
}
pub trait Observe {
    fn observe_once(&self);
    fn observe(&self, magnitude: impl AsPrimitive<Magnitude>);
    fn observe_millis(&self, duration: Duration);
    fn observe_duration_millis<F, R>(&self, f: F) -> R
    where
        F: FnOnce() -> R;
}

mod m_event {
    use super::*;
//@ extract file packages/nm_impl/src/event.rs
//@ rewrite "use fast_time::Clock;" ""
//@ rewrite "use num_traits::AsPrimitive;" ""
//@ end

    #[cfg(kani)]
    mod harness {
        use super::*;

        fn check(e: &Event<Pull>, calls_before: usize, magnitude: Magnitude, count: usize) {
            assert!(e.publish_model.calls.get() == calls_before + 1, "C16.event_call_reaches_the_bag_exactly_once");
            assert!(e.publish_model.last_magnitude.get() == magnitude, "C16.event_records_the_given_magnitude");
            assert!(e.publish_model.last_count.get() == count, "C16.event_batch_counts_as_its_size");
        }

        /// Every observation entry point of Event and ObservationBatch (inherent and through the Observe trait)
        /// reaches the bag exactly once with the given magnitude and the batch size (1 for the plain event).
        #[kani::proof]
        fn event_entry_points_record_magnitude_and_batch_size() {
            let e = Event::new(Pull::default());
            let n: usize = kani::any();
            let m: i64 = kani::any();
            // concrete candidates: symbolic 64/128-bit division in Duration::from_millis / as_millis is intractable for CBMC
            let pick: u8 = kani::any();
            let ms: u64 = match pick % 5 {
                0 => 0,
                1 => 1,
                2 => 999,
                3 => 1000,
                _ => 86_400_123,
            };
            // SAFETY: single-threaded harness.
            unsafe { GHOST_ELAPSED_MS = ms };
            let ran = Cell::new(0u8);
            let via_trait: bool = kani::any();
            let which: u8 = kani::any();
            kani::assume(which < 8);
            let before = e.publish_model.calls.get();
            match which {
                0 => {
                    if via_trait { Observe::observe_once(&e) } else { e.observe_once() }
                    check(&e, before, 1, 1);
                }
                1 => {
                    if via_trait { Observe::observe(&e, m) } else { e.observe(m) }
                    check(&e, before, m, 1);
                }
                2 => {
                    if via_trait { Observe::observe_millis(&e, Duration::from_millis(ms)) } else { e.observe_millis(Duration::from_millis(ms)) }
                    check(&e, before, ms as i64, 1);
                }
                3 => {
                    let r = if via_trait { Observe::observe_duration_millis(&e, || { ran.set(ran.get() + 1); 7u8 }) } else { e.observe_duration_millis(|| { ran.set(ran.get() + 1); 7u8 }) };
                    assert!(r == 7 && ran.get() == 1, "C16.event_duration_runs_the_closure_once_and_returns_its_result");
                    check(&e, before, ms as i64, 1);
                }
                4 => {
                    let b = e.batch(n);
                    if via_trait { Observe::observe_once(&b) } else { b.observe_once() }
                    check(&e, before, 1, n);
                }
                5 => {
                    let b = e.batch(n);
                    if via_trait { Observe::observe(&b, m) } else { b.observe(m) }
                    check(&e, before, m, n);
                }
                6 => {
                    let b = e.batch(n);
                    if via_trait { Observe::observe_millis(&b, Duration::from_millis(ms)) } else { b.observe_millis(Duration::from_millis(ms)) }
                    check(&e, before, ms as i64, n);
                }
                _ => {
                    let b = e.batch(n);
                    let r = if via_trait { Observe::observe_duration_millis(&b, || { ran.set(ran.get() + 1); 7u8 }) } else { b.observe_duration_millis(|| { ran.set(ran.get() + 1); 7u8 }) };
                    assert!(r == 7 && ran.get() == 1, "C16.event_duration_runs_the_closure_once_and_returns_its_result");
                    check(&e, before, ms as i64, n);
                }
            }
            kani::cover!(which == 7 && via_trait && n == 5);
        }
    }
}
